(* C05 -- Deduplication answers are truthful.  Statements only. *)
From Coq Require Import NArith Bool List.
Import ListNotations.
From XetModel Require Import Base.Codec Gen.ShardLayout Model.Merkle Model.Shard Proofs.CodecProofs Proofs.ShardProofs Proofs.DedupProofs Proofs.SearchProofs Model.Dedup Proofs.PipelineProofs Proofs.ResolveProofs Proofs.BytesProofs Proofs.ShardWholeProofs Proofs.ShardDedupWholeProofs.
From XetModel Require Import Gen.ManagerFacts Model.Manager Proofs.ManagerProofs Proofs.ManagerWholeProofs.
Open Scope N_scope.

(* "truthful" (Proofs/DedupProofs.v): 1 <= n <= |qs|; the segment names xorb c, spans [a, a+n) within c's chunks;
   chunk a+i of c is the i-th query hash (directly, or under the shard's HMAC key); bytes = sum of those lengths *)

(* the on-disk direct query, once the block is parsed, for every block, hint and query sequence *)
Theorem C05_direct_truthful : forall key c qs off n s, direct_rec key c qs off = Some (n, s) -> truthful key c qs n s.
Proof. exact direct_rec_truthful. Qed.

(* the byte-level function the correspondence executes computes exactly the record-level one whenever the
   bytes at the hinted position are a serialised well-formed block and the hint points inside it; the hint
   itself (lookup table, truncated-prefix coincidences, manager cache) is arbitrary *)
Theorem C05_direct_bytes_is_rec : forall bs ft qs idx off c rest, wf_cas c -> qs <> [] ->
  skipn (N.to_nat (ft_cas_info_offset ft + 48 * idx)) bs = ser_cas_info c ++ rest ->
  off < N.of_nat (length (ci_chunks c)) ->
  dedup_direct bs ft qs idx off = Found (direct_rec (ft_key ft) c qs off).
Proof. exact dedup_direct_is_rec. Qed.

(* the in-memory index: whatever block and start the hash map points at, a non-empty reported run is real *)
Theorem C05_inmem_truthful : forall m qs n s, mem_dedup_query m qs = Some (n, s) -> 1 <= n ->
  exists c, In c (map (fun kv => fst (snd kv)) (ms_lookup m)) /\ truthful zero_hash c qs n s.
Proof. exact mem_query_truthful. Qed.

(* non-vacuity: a two-chunk run found in the middle of a block *)
Definition ex_c : cas_info := mkCI (repeat 9 32%nat) 0 300 300
  [mkCE (repeat 1 32%nat) 100 0 0; mkCE (repeat 2 32%nat) 100 100 0; mkCE (repeat 3 32%nat) 100 200 0].
Example C05_nonvacuous : exists n s, direct_rec zero_hash ex_c [repeat 2 32%nat; repeat 3 32%nat; repeat 7 32%nat] 1 = Some (n, s) /\ n = 2 /\ sg_bytes s = 200.
Proof. eexists. eexists. vm_compute. repeat split. Qed.

(* the deduper's own lookup against the pending xorb (dedup_query_against_local_data): an answer (n, segment) names the
   pending data under the zero hash; its chunk range holds exactly the first n incoming chunks, and its byte count is the
   sum of their lengths.  Needs the deduper's invariant (C01: every lookup entry points at the chunk it names -- the
   table is cleared with every cut) and distinct 64-bit keys of distinct chunks. *)
Theorem C05_local_lookup_truthful : forall F U, StoreOk F U -> forall f fed cs n s,
  FInv F U f fed -> (forall c, In c cs -> In c U) -> local_query f (map fst cs) = Some (n, s) ->
  resolve_seg (pend (f_new f) :: F) s = Some (firstn (N.to_nat n) cs) /\ sg_bytes s = sum_lens (firstn (N.to_nat n) cs) /\
  sg_cas s = zero_hash /\ 1 <= n /\ n <= N.of_nat (length cs).
Proof.
  intros F U HS f fed cs n s H HU Q. destruct (local_query_ok F U (so_keys F U HS) f fed cs n s H HU Q) as (A & _ & C & D).
  split; [exact A|]. split; [exact (local_query_bytes F U HS f fed cs n s H HU Q)|]. split; [|split; assumption].
  unfold local_query in Q. destruct cs as [|c r]; [discriminate|]. cbn [map] in Q. destruct (lk _ _); [|discriminate]. injection Q as _ <-. reflexivity.
Qed.

(* on disk, end to end: for every shard serialize_from writes (d_bs: records, lookup tables, footer; the chunk table is the
   sorted table of truncated chunk hashes) the hypothesis of C05_direct_bytes_is_rec is discharged -- the chunk table read back
   from the bytes is the table written, each entry points at the block and chunk it was made from, the search hands out only
   such entries -- so whatever chunk_hash_dedup_query reports is a real run of one of the shard's blocks, for every probe
   function, every query and every key *)
Theorem C05_ondisk_truthful_end_to_end : forall files cass key created expiry,
  Forall wf_file files -> Forall wf_cas cass -> is_hash key -> is_u64 created -> is_u64 expiry ->
  is_u64 (sum_ndisk cass) -> is_u64 (sum_materialized files) -> is_u64 (sum_nbytes cass) ->
  Forall (fun c => Forall (fun ch => Forall (fun b => b < 256) (ce_hash ch)) (ci_chunks c)) cass ->
  N.of_nat (length (d_bs files cass key created expiry)) < 4294967296 ->
  forall probe qs n s, dedup_query probe (d_bs files cass key created expiry) (d_ft files cass key created expiry) qs = Found (Some (n, s)) ->
  exists c, In c cass /\ truthful key c qs n s.
Proof. intros files cass key created expiry A B C D E F G H I J probe qs n s. apply d_dedup_truthful; assumption. Qed.

(* ... and the other direction: a chunk recorded in one of the shard's blocks is found (by its first query hash), for every
   probe function and every key, provided at most eight table entries share its truncated hash (the lookup examines at most
   eight candidates); the answer is then a real run as above *)
Theorem C05_ondisk_complete : forall files cass key created expiry,
  Forall wf_file files -> Forall wf_cas cass -> is_hash key -> is_u64 created -> is_u64 expiry ->
  is_u64 (sum_ndisk cass) -> is_u64 (sum_materialized files) -> is_u64 (sum_nbytes cass) ->
  Forall (fun c => Forall (fun ch => Forall (fun b => b < 256) (ce_hash ch)) (ci_chunks c)) cass ->
  N.of_nat (length (d_bs files cass key created expiry)) < 4294967296 ->
  forall probe q0 qr pre c post j ch, cass = pre ++ c :: post -> nth_error (ci_chunks c) j = Some ch -> ce_hash ch = keyed key q0 ->
  (length (matching (truncate_hash (keyed key q0)) (d_ctbl cass)) <= 8)%nat ->
  exists n s, dedup_query probe (d_bs files cass key created expiry) (d_ft files cass key created expiry) (q0 :: qr) = Found (Some (n, s))
              /\ exists c', In c' cass /\ truthful key c' (q0 :: qr) n s.
Proof. intros files cass key created expiry A B C D E F G H I J probe q0 qr pre c post j ch. apply d_dedup_complete; assumption. Qed.
(* the premises are met by a concrete two-block shard *)
Theorem C05_ondisk_complete_example :
  exists n s, dedup_query probe_exact (d_bs [] [dx_c1; dx_c2] zero_hash 0 0) (d_ft [] [dx_c1; dx_c2] zero_hash 0 0) [repeat 14 32%nat; repeat 99 32%nat] = Found (Some (n, s))
              /\ exists c', In c' [dx_c1; dx_c2] /\ truthful zero_hash c' [repeat 14 32%nat; repeat 99 32%nat] n s.
Proof. exact dx_found. Qed.


(* the shard manager: whatever ShardFileManager::chunk_hash_dedup_query reports -- from the in-memory shard, or routed through
   the capped index to a registered or flushed shard file -- is a real run of a block the manager was told about (added, or
   part of a registered shard, under that shard's key); the routed query never fails.  Any sequence of add / flush / register *)
Theorem C05_manager_truthful : forall ra cap target ops qs, shards_ok ops -> N.of_nat (length ops) <= 65536 -> qs <> [] ->
  let g := mgr_run ra cap target ops in
  exists r, mgr_dedup g qs = Found r /\
    forall n sg, r = Some (n, sg) -> 1 <= n -> exists key blk, Told ops key blk /\ truthful key blk qs n sg.
Proof. exact mgr_dedup_truthful. Qed.
(* the index alone: every entry points at a registered shard of its collection and at a chunk with that truncated hash *)
Theorem C05_manager_index_sound : forall cap ops, N.of_nat (length ops) <= 65536 -> BookOk (fold_left (register cap) ops book0).
Proof. exact registered_index_ok. Qed.

Print Assumptions C05_direct_truthful.
Print Assumptions C05_direct_bytes_is_rec.
Print Assumptions C05_inmem_truthful.
Print Assumptions C05_local_lookup_truthful.
Print Assumptions C05_ondisk_truthful_end_to_end.
Print Assumptions C05_ondisk_complete.
Print Assumptions C05_ondisk_complete_example.
Print Assumptions C05_manager_truthful.
Print Assumptions C05_manager_index_sound.
