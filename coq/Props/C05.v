(* C05 -- Deduplication answers are truthful.  Statements only. *)
From Coq Require Import NArith Bool List.
Import ListNotations.
From XetModel Require Import Base.Codec Gen.ShardLayout Model.Merkle Model.Shard Proofs.CodecProofs Proofs.ShardProofs Proofs.DedupProofs.
Open Scope N_scope.

(* "truthful" (Proofs/DedupProofs.v): 1 <= n <= |qs|; the segment names xorb c, spans [a, a+n) within c's chunks;
   chunk a+i of c is the i-th query hash (directly, or under the shard's HMAC key); bytes = sum of those lengths *)

(* the on-disk direct query, once the block is parsed, for every block, hint and query sequence *)
Theorem C05_direct_truthful : forall key c qs off n s, direct_rec key c qs off = Some (n, s) -> truthful key c qs n s.
Proof. exact direct_rec_truthful. Qed.

(* the byte-level function the correspondence executes computes exactly the record-level one whenever the
   bytes at the hinted position are a serialised well-formed block and the hint points inside it; the hint
   itself (lookup table, truncated-prefix coincidences, manager cache) is arbitrary *)
Theorem C05_direct_bytes_is_rec : forall bs ft qs idx off c rest, wf_cas c -> qs <> [] ->
  skipn (N.to_nat (ft_cas_info_offset ft + 48 * idx)) bs = ser_cas_info c ++ rest ->
  off < N.of_nat (length (ci_chunks c)) ->
  dedup_direct bs ft qs idx off = Found (direct_rec (ft_key ft) c qs off).
Proof. exact dedup_direct_is_rec. Qed.

(* the in-memory index: whatever block and start the hash map points at, a non-empty reported run is real *)
Theorem C05_inmem_truthful : forall m qs n s, mem_dedup_query m qs = Some (n, s) -> 1 <= n ->
  exists c, In c (map (fun kv => fst (snd kv)) (ms_lookup m)) /\ truthful zero_hash c qs n s.
Proof. exact mem_query_truthful. Qed.

(* non-vacuity: a two-chunk run found in the middle of a block *)
Definition ex_c : cas_info := mkCI (repeat 9 32%nat) 0 300 300
  [mkCE (repeat 1 32%nat) 100 0 0; mkCE (repeat 2 32%nat) 100 100 0; mkCE (repeat 3 32%nat) 100 200 0].
Example C05_nonvacuous : exists n s, direct_rec zero_hash ex_c [repeat 2 32%nat; repeat 3 32%nat; repeat 7 32%nat] 1 = Some (n, s) /\ n = 2 /\ sg_bytes s = 200.
Proof. eexists. eexists. vm_compute. repeat split. Qed.

Print Assumptions C05_direct_truthful.
Print Assumptions C05_direct_bytes_is_rec.
Print Assumptions C05_inmem_truthful.
