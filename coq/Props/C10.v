(* C10 -- Shard union, difference and consolidation neither lose nor invent records.  Statements only. *)
From Coq Require Import NArith Bool List.
Import ListNotations.
From XetModel Require Import Base.Codec Gen.ShardLayout Model.Merkle Model.Shard Proofs.SetOpProofs.
Open Scope N_scope.

(* keys are the four u64 words the code orders and compares by *)
Theorem C10_union_file_keys : forall fuel a b k, (length a + length b <= fuel)%nat ->
  (In k (map fkey (union_files fuel a b)) <-> In k (map fkey a) \/ In k (map fkey b)).
Proof. exact union_files_keys. Qed.
Theorem C10_union_cas_keys : forall fuel a b k, (length a + length b <= fuel)%nat ->
  (In k (map ckey (union_cas fuel a b)) <-> In k (map ckey a) \/ In k (map ckey b)).
Proof. exact union_cas_keys. Qed.

(* nothing is invented: a xorb record of the union is an input record; a file record is an input record or
   the stated merge (fresh header, A's segments, verification/metadata from whichever side has them) of two
   records with the same key *)
Theorem C10_union_cas_records : forall fuel a b c, In c (union_cas fuel a b) -> In c a \/ In c b.
Proof. exact union_cas_records. Qed.
Theorem C10_union_file_records : forall fuel a b f, In f (union_files fuel a b) ->
  In f a \/ In f b \/ exists x y, In x a /\ In y b /\ fkey x = fkey y /\ f = merge_disk x y.
Proof. exact union_files_records. Qed.

(* difference returns only records of the second shard (the half "not in the first" needs sortedness of the
   inputs and is exercised by the correspondence and the direct oracle; its Coq proof is not in this revision) *)
Theorem C10_difference_files_partial : forall fuel a b f, In f (diff_files fuel a b) -> In f b.
Proof. exact diff_files_subset. Qed.
Theorem C10_difference_cas_partial : forall fuel a b c, In c (diff_cas fuel a b) -> In c b.
Proof. exact diff_cas_subset. Qed.

Print Assumptions C10_union_file_keys.
Print Assumptions C10_union_file_records.
Print Assumptions C10_difference_files_partial.
