(* C10 -- Shard union, difference and consolidation neither lose nor invent records.  Statements only. *)
From Coq Require Import NArith Bool List.
Import ListNotations.
From XetModel Require Import Base.Codec Gen.ShardLayout Model.Merkle Model.Shard Model.Crash Proofs.SetOpProofs Proofs.SetOpSortedProofs.
From XetModel Require Import Proofs.CodecProofs Proofs.ShardWholeProofs Proofs.ShardDedupWholeProofs Proofs.ShardProofs Proofs.MergeProofs Proofs.MergeAllProofs Proofs.MergeResegProofs Proofs.UnionWfProofs Proofs.ShardSizeProofs Proofs.DiffBuiltProofs.
Open Scope N_scope.

(* keys are the four u64 words the code orders and compares by *)
Theorem C10_union_file_keys : forall fuel a b k, (length a + length b <= fuel)%nat ->
  (In k (map fkey (union_files fuel a b)) <-> In k (map fkey a) \/ In k (map fkey b)).
Proof. exact union_files_keys. Qed.
Theorem C10_union_cas_keys : forall fuel a b k, (length a + length b <= fuel)%nat ->
  (In k (map ckey (union_cas fuel a b)) <-> In k (map ckey a) \/ In k (map ckey b)).
Proof. exact union_cas_keys. Qed.

(* nothing is invented: a xorb record of the union is an input record; a file record is an input record or
   the stated merge (fresh header, A's segments, verification/metadata from whichever side has them) of two
   records with the same key *)
Theorem C10_union_cas_records : forall fuel a b c, In c (union_cas fuel a b) -> In c a \/ In c b.
Proof. exact union_cas_records. Qed.
Theorem C10_union_file_records : forall fuel a b f, In f (union_files fuel a b) ->
  In f a \/ In f b \/ exists x y, In x a /\ In y b /\ fkey x = fkey y /\ f = merge_disk x y.
Proof. exact union_files_records. Qed.

(* difference: on inputs sorted by key (as every shard is written) the walk returns exactly the records of the second
   shard whose key does not occur in the first *)
Theorem C10_difference_files_exact : forall fuel a b f, (length a + length b <= fuel)%nat -> KSorted fi_hash a -> KSorted fi_hash b ->
  (In f (diff_files fuel a b) <-> In f b /\ ~ In (fkey f) (map fkey a)).
Proof. exact diff_files_spec. Qed.
Theorem C10_difference_cas_exact : forall fuel a b c, (length a + length b <= fuel)%nat -> KSorted ci_hash a -> KSorted ci_hash b ->
  (In c (diff_cas fuel a b) <-> In c b /\ ~ In (ckey c) (map ckey a)).
Proof. exact diff_cas_spec. Qed.
(* the sortedness premise is met by every shard the client writes: for two in-memory shards built by any sequences of adds
   (whose record lists serialize_from writes in order) the difference is exact *)
Theorem C10_difference_exact_for_built_shards : forall opsA opsB, Forall mop_ok opsA -> Forall mop_ok opsB ->
  let a := fold_left mstep_add opsA ms_empty in let b := fold_left mstep_add opsB ms_empty in
  (forall f, In f (diff_files (length (ms_files a) + length (ms_files b)) (ms_files a) (ms_files b)) <-> In f (ms_files b) /\ ~ In (fkey f) (map fkey (ms_files a))) /\
  (forall c, In c (diff_cas (length (ms_cass a) + length (ms_cass b)) (ms_cass a) (ms_cass b)) <-> In c (ms_cass b) /\ ~ In (ckey c) (map ckey (ms_cass a))).
Proof. exact difference_exact_for_built_shards. Qed.
(* without the sortedness premise: only records of the second shard *)
Theorem C10_difference_files_subset : forall fuel a b f, In f (diff_files fuel a b) -> In f b.
Proof. exact diff_files_subset. Qed.
Theorem C10_difference_cas_subset : forall fuel a b c, In c (diff_cas fuel a b) -> In c b.
Proof. exact diff_cas_subset. Qed.
(* union and difference keep their outputs sorted by key, so the result can be searched and merged again (consolidation
   merges repeatedly) *)
Theorem C10_union_sorted : forall fuel fa fb ca cb, KSorted fi_hash fa -> KSorted fi_hash fb -> KSorted ci_hash ca -> KSorted ci_hash cb ->
  KSorted fi_hash (union_files fuel fa fb) /\ KSorted ci_hash (union_cas fuel ca cb).
Proof. intros. split; [apply union_files_sorted | apply union_cas_sorted]; assumption. Qed.
Theorem C10_difference_sorted : forall fuel fa fb ca cb, KSorted fi_hash fb -> KSorted ci_hash cb ->
  KSorted fi_hash (diff_files fuel fa fb) /\ KSorted ci_hash (diff_cas fuel ca cb).
Proof. intros. split; [apply diff_files_sorted | apply diff_cas_sorted]; assumption. Qed.
Example C10_difference_premises_satisfiable :
  KSorted ci_hash [so_c 1; so_c 2] /\ KSorted ci_hash [so_c 2; so_c 3] /\ diff_cas 4 [so_c 1; so_c 2] [so_c 2; so_c 3] = [so_c 3].
Proof. exact diff_example. Qed.


(* at the level of bytes: the consolidation step (load both shard files with the crate's readers, walk both record lists,
   serialize the result) applied to two serialized shards -- any keys, times and chunk tables -- is the serialization of their
   union ... *)
Theorem C10_merge_of_serialized_shards : forall fa ca ta ka cra exa fb cb tb kb crb exb,
  ShardOk fa ca ta ka cra exa -> ShardOk fb cb tb kb crb exb ->
  merge_bytes (w_bs fa ca ta ka cra exa) (w_bs fb cb tb kb crb exb) = Some (disk_union fa fb ca cb).
Proof. exact merge_of_serialized. Qed.
(* ... so that, read back with the crate's scans, the merged file makes retrievable exactly the file and xorb keys that were
   retrievable from one of the inputs: nothing lost (the premise of C19's write-before-delete theorem), nothing invented *)
Theorem C10_merge_covers_inputs : forall fa ca ta ka cra exa fb cb tb kb crb exb m,
  ShardOk fa ca ta ka cra exa -> ShardOk fb cb tb kb crb exb ->
  ShardOk (union_files (length fa + length fb) fa fb) (union_cas (length ca + length cb) ca cb) (d_ctbl (union_cas (length ca + length cb) ca cb)) zero_hash 0 u64max ->
  merge_bytes (w_bs fa ca ta ka cra exa) (w_bs fb cb tb kb crb exb) = Some m ->
  forall x, shard_recs (w_bs fa ca ta ka cra exa) x \/ shard_recs (w_bs fb cb tb kb crb exb) x -> shard_recs m x.
Proof. exact merge_covers_inputs. Qed.
Theorem C10_merge_invents_nothing : forall fa ca ta ka cra exa fb cb tb kb crb exb m,
  ShardOk fa ca ta ka cra exa -> ShardOk fb cb tb kb crb exb ->
  ShardOk (union_files (length fa + length fb) fa fb) (union_cas (length ca + length cb) ca cb) (d_ctbl (union_cas (length ca + length cb) ca cb)) zero_hash 0 u64max ->
  merge_bytes (w_bs fa ca ta ka cra exa) (w_bs fb cb tb kb crb exb) = Some m ->
  forall x, shard_recs m x -> shard_recs (w_bs fa ca ta ka cra exa) x \/ shard_recs (w_bs fb cb tb kb crb exb) x.
Proof. exact merge_invents_nothing. Qed.
Example C10_merge_example :
  exists m, merge_bytes (w_bs [wx_f1] [] [] zero_hash 0 u64max) (w_bs [wx_f2] [] [] zero_hash 0 u64max) = Some m
    /\ shard_recs m (FileKey (fkey wx_f1)) /\ shard_recs m (FileKey (fkey wx_f2)) /\ ~ shard_recs m (FileKey (hwords (repeat 3 32%nat))).
Proof. exact merge_example. Qed.


(* a whole consolidation group: merge_all folds the merge step over the shards of the group; on serialized shards the result is
   the serialization of the iterated union (every intermediate result a well-formed shard below 4 GiB: UnionsOk), and it
   covers every input *)
Theorem C10_merge_all_of_serialized_shards : forall (g : list (fname * sshard)) acc, ss_ok acc -> Forall (fun x => ss_ok (snd x)) g -> UnionsOk acc (map snd g) ->
  merge_all (ss_bytes acc) (map (fun x => (fst x, ss_bytes (snd x))) g) = Some (ss_bytes (ss_unions acc (map snd g))).
Proof. exact merge_all_serialized. Qed.
Theorem C10_merge_all_covers_inputs : forall (g : list (fname * sshard)) acc m, ss_ok acc -> Forall (fun x => ss_ok (snd x)) g -> UnionsOk acc (map snd g) ->
  ss_ok (ss_unions acc (map snd g)) ->
  merge_all (ss_bytes acc) (map (fun x => (fst x, ss_bytes (snd x))) g) = Some m ->
  forall x, shard_recs (ss_bytes acc) x \/ (exists n s, In (n, s) g /\ shard_recs (ss_bytes s) x) -> shard_recs m x.
Proof. exact merge_all_covers_inputs. Qed.

(* away from known finding K2 the union is well-formed: when every pair of records of one file, one from each input, has
   segment lists of the same length (SameSegs), the merge of two well-formed records is well-formed, every record of the
   union is, and -- with the size bounds of the result -- ShardOk of the inputs gives ShardOk of their union, which is the
   premise of C10_merge_covers_inputs / C10_merge_invents_nothing and of UnionsOk in the group theorems *)
Theorem C10_merge_of_same_segmentation_is_wellformed : forall a b, wf_file a -> wf_file b -> length (fi_segs a) = length (fi_segs b) -> wf_file (merge_disk a b).
Proof. exact merge_disk_wf. Qed.
Theorem C10_union_of_wellformed_shards_is_wellformed : forall fa ca ta ka cra exa fb cb tb kb crb exb,
  ShardOk fa ca ta ka cra exa -> ShardOk fb cb tb kb crb exb -> SameSegs fa fb ->
  let fu := union_files (length fa + length fb) fa fb in let cu := union_cas (length ca + length cb) ca cb in
  is_u64 (sum_ndisk cu) -> is_u64 (sum_materialized fu) -> is_u64 (sum_nbytes cu) ->
  N.of_nat (length (w_bs fu cu (d_ctbl cu) zero_hash 0 u64max)) < 4294967296 ->
  ShardOk fu cu (d_ctbl cu) zero_hash 0 u64max.
Proof. exact union_shard_ok. Qed.

(* ... and for a whole consolidation group: UnionsOk (every intermediate union is a well-formed shard) and ShardOk of the
   final union follow from well-formed inputs, no step meeting a K2 pair, and the size bounds of the intermediate results *)
Theorem C10_group_unions_are_wellformed : forall g acc, ss_ok acc -> Forall ss_ok g -> StepsFit acc g -> UnionsOk acc g /\ ss_ok (ss_unions acc g).
Proof. exact unions_ok_from_steps. Qed.

(* known finding K2, on the model's side: two well-formed records of one file whose segment lists differ -- the same bytes
   deduplicated differently by two sessions -- merge into a record that is not well-formed: the segments of one, the
   verification entries of the other (two segments, three verification entries).  On disk (shard_set_union's Merge branch)
   when the first carries only the metadata extension and the second only verification entries; in memory
   (MDBFileInfo::merge_from) whenever the kept record lacks verification entries and the other has them.  The theorems above
   speak of unions that are well-formed shards (ShardOk), which excludes this; the implementation, run on such pairs, loses
   records (stream c10, resegmented-* cases; debug builds stop at the assertion that states the assumption). *)
Theorem C10_merge_of_resegmented_records_refuted :
  wf_file k2_a /\ wf_file k2_b /\ fi_hash k2_a = fi_hash k2_b /\
  length (fi_segs (merge_disk k2_a k2_b)) = 2%nat /\ length (fi_verif (merge_disk k2_a k2_b)) = 3%nat /\ ~ wf_file (merge_disk k2_a k2_b).
Proof. exact merge_of_resegmented_records_refuted. Qed.
Theorem C10_merge_from_of_resegmented_records_refuted :
  wf_file k2_c /\ wf_file k2_b /\ fi_hash k2_c = fi_hash k2_b /\
  length (fi_segs (merge_from k2_c k2_b)) = 2%nat /\ length (fi_verif (merge_from k2_c k2_b)) = 3%nat /\ ~ wf_file (merge_from k2_c k2_b).
Proof. exact merge_from_of_resegmented_records_refuted. Qed.

Print Assumptions C10_union_file_keys.
Print Assumptions C10_union_file_records.
Print Assumptions C10_difference_files_exact.
Print Assumptions C10_union_sorted.
Print Assumptions C10_difference_sorted.
Print Assumptions C10_merge_of_serialized_shards.
Print Assumptions C10_merge_covers_inputs.
Print Assumptions C10_merge_invents_nothing.
Print Assumptions C10_merge_all_covers_inputs.
Print Assumptions C10_merge_of_resegmented_records_refuted.
Print Assumptions C10_merge_from_of_resegmented_records_refuted.
Print Assumptions C10_merge_of_same_segmentation_is_wellformed.
Print Assumptions C10_union_of_wellformed_shards_is_wellformed.
Print Assumptions C10_group_unions_are_wellformed.
Print Assumptions C10_difference_exact_for_built_shards.
