(* C03 -- A file's pointer (hash, size) depends only on its bytes and the salt.  Statements only. *)
From Coq Require Import NArith Bool List.
Import ListNotations.
From XetModel Require Import Base.Codec Gen.ShardLayout Gen.DedupFacts Model.Blake3 Model.Merkle Model.Shard Model.Dedup Proofs.PipelineProofs Proofs.ResolveProofs Proofs.BytesProofs Proofs.PointerProofs Proofs.SaltProofs.
Open Scope N_scope.

From XetModel Require Import Gen.GearTable Gen.ChunkConsts Model.Chunker Proofs.ChunkerProofs Proofs.ChunkerLaws.

(* the chunk list the file hash is computed from is exactly the fed chunks in order -- whatever was deduplicated, however
   the chunks were grouped into process_chunks calls, whatever the oracle, the store and the limits *)
Theorem C03_fed_chunks_recorded : forall bbd cf f chunks answers,
  rev (f_hashes (process_chunks bbd cf f chunks answers)) = rev (f_hashes f) ++ chunks.
Proof. exact fed_chunks_recorded. Qed.
(* ... and the pointer's hash is file_node_hash of that list under the salt *)
Theorem C03_file_hash_function : forall f salt sha,
  fst (fst (fst (fd_finalize f salt sha))) = match file_node_hash (rev (f_hashes f)) salt with Some h => h | None => zero_hash end.
Proof. exact file_hash_function. Qed.
(* ... and the chunks themselves are a function of the bytes alone, however they are split across add-data calls (C04) *)
Theorem C03_chunks_partition_invariant : forall target c calls1 calls2,
  chunker_new target = Some c -> api_ok calls1 = true -> api_ok calls2 = true ->
  concat (map fst calls1) = concat (map fst calls2) ->
  run_calls c st0 calls1 = run_calls c st0 calls2 /\ run_calls c st0 calls1 <> None.
Proof. exact L_partition_invariant. Qed.
(* the size field is the total_bytes metric (C14); salt separation is a property of keyed BLAKE3 and is checked by the
   oracle on generated contents (two salts), not proved *)

(* the pointer's hash for a whole file: it is file_node_hash of the chunk sequence under the salt, and therefore the same for
   any two runs over the same chunk sequence -- whatever the block split, the dedup table, what the session registered before,
   the size limits, the fragmentation decisions, the SHA-256 supplied *)
Theorem C03_pointer_hash_is_file_node_hash : forall bbd cf ext R blocks salt sha,
  fst (fst (fst (fd_finalize (feed_blocks bbd cf ext (fd_with_registered R) blocks) salt sha))) =
  match file_node_hash (concat blocks) salt with Some h => h | None => zero_hash end.
Proof. exact pointer_hash_is_file_node_hash. Qed.
Theorem C03_pointer_hash_independent_of_split_store_and_limits : forall bbd1 bbd2 cf1 cf2 ext1 ext2 R1 R2 blocks1 blocks2 salt sha1 sha2,
  concat blocks1 = concat blocks2 ->
  fst (fst (fst (fd_finalize (feed_blocks bbd1 cf1 ext1 (fd_with_registered R1) blocks1) salt sha1))) =
  fst (fst (fst (fd_finalize (feed_blocks bbd2 cf2 ext2 (fd_with_registered R2) blocks2) salt sha2))).
Proof. exact pointer_hash_depends_on_chunks_and_salt. Qed.
(* the pointer's size is the total-bytes counter, which is the number of bytes fed (C14_total_bytes_exact, restated) *)
Theorem C03_pointer_size_is_bytes_fed : forall F U, StoreOk F U -> forall cf ext R blocks,
  TableOk F ext -> TableSmall ext -> (forall x, In x F -> sum_lens (chunks_of x) < 4294967296) ->
  (forall b c, In b blocks -> In c b -> In c U) ->
  (forall x, In x (f_registered (feed_blocks dedup_booked_before_decision cf ext (fd_with_registered R) blocks)) -> In x F) ->
  m_total_bytes (f_metrics (feed_blocks dedup_booked_before_decision cf ext (fd_with_registered R) blocks)) = sum_lens (concat blocks).
Proof. exact file_total_bytes. Qed.

(* "different salts give different hashes": the pointer hash of a non-empty file is the keyed hash, under the salt, of the
   salt-free Merkle root of its chunks, so the same hash under two salts exhibits a collision of the keyed hash on that root
   under the two keys; the empty file is the boundary (zero hash under every salt); with the real BLAKE3 a one-chunk file
   under two salts computes to two hashes (the case seed C03-r4m1 breaks) *)
Theorem C03_salted_hash_shape : forall chunks salt, chunks <> [] ->
  file_node_hash chunks salt = option_map (fun r => keyed_hash salt r) (cas_node_hash compute_internal_node_hash chunks).
Proof. exact salted_hash_shape. Qed.
Theorem C03_same_hash_under_two_salts_is_a_collision : forall chunks s1 s2 h, chunks <> [] ->
  file_node_hash chunks s1 = Some h -> file_node_hash chunks s2 = Some h ->
  exists root, cas_node_hash compute_internal_node_hash chunks = Some root /\ keyed_hash s1 root = h /\ keyed_hash s2 root = h.
Proof. exact same_hash_under_two_salts_is_a_collision. Qed.
Theorem C03_empty_file_hash_ignores_the_salt : forall s1 s2, file_node_hash [] s1 = file_node_hash [] s2.
Proof. exact empty_file_hash_ignores_the_salt. Qed.
Example C03_two_salts_two_hashes : file_node_hash one_chunk salt_a <> file_node_hash one_chunk salt_b /\ file_node_hash one_chunk salt_a <> None.
Proof. exact two_salts_two_hashes. Qed.

Print Assumptions C03_fed_chunks_recorded.
Print Assumptions C03_file_hash_function.
Print Assumptions C03_pointer_hash_is_file_node_hash.
Print Assumptions C03_pointer_hash_independent_of_split_store_and_limits.
Print Assumptions C03_pointer_size_is_bytes_fed.
Print Assumptions C03_same_hash_under_two_salts_is_a_collision.
Print Assumptions C03_two_salts_two_hashes.
