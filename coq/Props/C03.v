(* C03 -- A file's pointer (hash, size) depends only on its bytes and the salt.  Statements only. *)
From Coq Require Import NArith Bool List.
Import ListNotations.
From XetModel Require Import Base.Codec Gen.ShardLayout Gen.DedupFacts Model.Merkle Model.Shard Model.Dedup Proofs.PipelineProofs.
Open Scope N_scope.

From XetModel Require Import Gen.GearTable Gen.ChunkConsts Model.Chunker Proofs.ChunkerProofs Proofs.ChunkerLaws.

(* the chunk list the file hash is computed from is exactly the fed chunks in order -- whatever was deduplicated, however
   the chunks were grouped into process_chunks calls, whatever the oracle, the store and the limits *)
Theorem C03_fed_chunks_recorded : forall bbd cf f chunks answers,
  rev (f_hashes (process_chunks bbd cf f chunks answers)) = rev (f_hashes f) ++ chunks.
Proof. exact fed_chunks_recorded. Qed.
(* ... and the pointer's hash is file_node_hash of that list under the salt *)
Theorem C03_file_hash_function : forall f salt sha,
  fst (fst (fst (fd_finalize f salt sha))) = match file_node_hash (rev (f_hashes f)) salt with Some h => h | None => zero_hash end.
Proof. exact file_hash_function. Qed.
(* ... and the chunks themselves are a function of the bytes alone, however they are split across add-data calls (C04) *)
Theorem C03_chunks_partition_invariant : forall target c calls1 calls2,
  chunker_new target = Some c -> api_ok calls1 = true -> api_ok calls2 = true ->
  concat (map fst calls1) = concat (map fst calls2) ->
  run_calls c st0 calls1 = run_calls c st0 calls2 /\ run_calls c st0 calls1 <> None.
Proof. exact L_partition_invariant. Qed.
(* the size field is the total_bytes metric (C14); salt separation is a property of keyed BLAKE3 and is checked by the
   oracle on generated contents (two salts), not proved *)

Print Assumptions C03_fed_chunks_recorded.
Print Assumptions C03_file_hash_function.
