(* C16 -- Shards follow their xorbs, and upload failures are never swallowed.  Statements only.
   The model (Model/Upload.v) is the upload session's bookkeeping of its xorb upload tasks: registration records the
   xorb in the session shard, reaps finished tasks (returning the first error it meets), spawns the upload; finalize
   joins every task before it uploads the shards.  The environment decides when each upload finishes and whether it
   fails.  [upload_failure_is_sticky] is regenerated from the source on every run. *)
From Coq Require Import List NArith Bool Arith Permutation.
Import ListNotations.
From XetModel Require Import Base.Codec Model.Merkle Model.Shard Model.Dedup Model.Cache Model.Chunker Model.Reconstruct Proofs.ChunkerLaws Proofs.ResolveProofs Proofs.EndToEndProofs
  Gen.DedupFacts Gen.UploadFacts Model.Upload Proofs.UploadProofs Proofs.UploadSessionProofs.

Theorem C16_invariant_every_history : forall es s, UInv s -> UInv (urun true s es).
Proof. exact urun_inv. Qed.

(* a shard is handed to the store only when every xorb the session shard names is stored, whatever the order in which
   the uploads finished and whichever failed *)
Theorem C16_shards_follow_xorbs : forall s, UInv s -> finalize_join true s = Some true -> forall x, In x (u_recorded s) -> In x (u_stored s).
Proof. exact shard_after_xorbs. Qed.

(* no swallowed failure: once any xorb upload has failed, finalize cannot succeed, and once the failure has been
   observed every further registration returns an error as well *)
Theorem C16_failure_fails_finalize : forall s x, UInv s -> In x (u_failed s) -> finalize_join true s <> Some true.
Proof. exact failure_fails_finalize. Qed.
Theorem C16_failure_is_sticky : forall s x, u_sticky s = true -> snd (register true s x) = false.
Proof. exact sticky_rejects. Qed.

(* the session as its caller sees it (session_result: every registration's result, the join, the upload of the session's
   shards, each of which may fail): success means that no store call failed, every registered xorb is stored and every
   shard upload succeeded -- for every order of registrations and completions and every choice of failures *)
Theorem C16_session_success : forall es shards, session_result true es shards = Some true ->
  let s := urun true u_init es in
  (forall x, In x (regs es) -> In x (u_stored s)) /\ u_failed s = [] /\ (forall b, In b shards -> b = true) /\ regs_ok true u_init es = true.
Proof. exact session_success. Qed.
(* the property's wording: a failed xorb upload or a failed shard upload makes the session report an error *)
Theorem C16_failure_is_reported : forall es shards r, session_result true es shards = Some r ->
  u_failed (urun true u_init es) <> [] \/ In false shards -> r = false.
Proof. exact failure_is_reported. Qed.
(* "a session that reports success always leaves every file fully reconstructible from the store", composed with the
   deduper's session (C01) and the download (C17): the deduper hands its xorbs to the upload path, which registers them in
   that order as 0, 1, ..; the store holds at least what the successful puts stored; then every file the session completed
   downloads to exactly the bytes that were cleaned *)
Theorem C16_success_means_reconstructible : forall (content : hash -> bytes) (hashf : bytes -> hash) F U rc cf ops es shards target c calls chs fh,
  let ups := rev (s_uploaded (srun rc cf ops)) in
  regs es = seq 0 (length ups) ->
  (forall i x, In i (u_stored (urun true u_init es)) -> nth_error ups i = Some x -> In x F) ->
  session_result true es shards = Some true ->
  chunker_new target = Some c -> api_ok calls = true -> run_calls c st0 calls = Some chs ->
  StoreOk F U -> Forall (op_ok F U) ops ->
  In (fh, ids_of hashf chs) (ghosts ops) ->
  (forall ch, In ch chs -> content (hashf ch) = ch) ->
  let data := concat (map fst calls) in
  exists fi, In fi (s_shard_files (srun rc cf ops)) /\ fi_hash fi = fh /\
    let terms := map (term_of content F) (fi_segs fi) in
    seq_write terms true 0 (lenN data) = Some data /\
    forall order out n, Permutation order (seq 0 (length terms)) -> par_write terms (map lenN terms) 0 (lenN data) order = Some (out, n) -> out = data.
Proof. exact success_means_reconstructible. Qed.
Example C16_session_examples :
  session_result true [URegister 0; URegister 1; UFinish 1 true; URegister 2; UFinish 0 true; UFinish 2 true]%nat [true] = Some true /\
  session_result true [URegister 0; URegister 1; UFinish 1 false; URegister 2; UFinish 0 true]%nat [true] = Some false /\
  session_result true [URegister 0; UFinish 0 true]%nat [true; false] = Some false.
Proof. exact session_examples. Qed.

(* the shape the source had before the repair: the observed failure is forgotten and finalize uploads a shard that names
   xorbs which are not stored *)
Theorem C16_forgotten_failure_refuted :
  let s := urun false u_init ex_upload_history in
  finalize_join false s = Some true /\ u_recorded s = [3; 2; 1]%nat /\ u_stored s = [1]%nat /\
  finalize_join true (urun true u_init ex_upload_history) = Some false.
Proof. exact forgotten_failure_refuted. Qed.

(* facts regenerated from file_upload_session.rs / shard_interface.rs *)
Example C16_facts : upload_failure_is_sticky = true /\ shards_uploaded_after_xorb_join = true /\ shard_upload_errors_propagated = true.
Proof. repeat split; reflexivity. Qed.

Example C16_nonvacuous : UInv u_init /\ finalize_join true (urun true u_init [URegister 1; URegister 2; UFinish 2 true; UFinish 1 true]) = Some true.
Proof. split; [exact UInv_init | reflexivity]. Qed.

Print Assumptions C16_invariant_every_history.
Print Assumptions C16_shards_follow_xorbs.
Print Assumptions C16_failure_fails_finalize.
Print Assumptions C16_session_success.
Print Assumptions C16_failure_is_reported.
Print Assumptions C16_success_means_reconstructible.
