(* C16 -- Shards follow their xorbs, and upload failures are never swallowed.  Statements only.
   The model (Model/Upload.v) is the upload session's bookkeeping of its xorb upload tasks: registration records the
   xorb in the session shard, reaps finished tasks (returning the first error it meets), spawns the upload; finalize
   joins every task before it uploads the shards.  The environment decides when each upload finishes and whether it
   fails.  [upload_failure_is_sticky] is regenerated from the source on every run. *)
From Coq Require Import List NArith Bool Arith.
Import ListNotations.
From XetModel Require Import Gen.DedupFacts Gen.UploadFacts Model.Upload Proofs.UploadProofs.

Theorem C16_invariant_every_history : forall es s, UInv s -> UInv (urun true s es).
Proof. exact urun_inv. Qed.

(* a shard is handed to the store only when every xorb the session shard names is stored, whatever the order in which
   the uploads finished and whichever failed *)
Theorem C16_shards_follow_xorbs : forall s, UInv s -> finalize_join true s = Some true -> forall x, In x (u_recorded s) -> In x (u_stored s).
Proof. exact shard_after_xorbs. Qed.

(* no swallowed failure: once any xorb upload has failed, finalize cannot succeed, and once the failure has been
   observed every further registration returns an error as well *)
Theorem C16_failure_fails_finalize : forall s x, UInv s -> In x (u_failed s) -> finalize_join true s <> Some true.
Proof. exact failure_fails_finalize. Qed.
Theorem C16_failure_is_sticky : forall s x, u_sticky s = true -> snd (register true s x) = false.
Proof. exact sticky_rejects. Qed.

(* the shape the source had before the repair: the observed failure is forgotten and finalize uploads a shard that names
   xorbs which are not stored *)
Theorem C16_forgotten_failure_refuted :
  let s := urun false u_init ex_upload_history in
  finalize_join false s = Some true /\ u_recorded s = [3; 2; 1]%nat /\ u_stored s = [1]%nat /\
  finalize_join true (urun true u_init ex_upload_history) = Some false.
Proof. exact forgotten_failure_refuted. Qed.

(* facts regenerated from file_upload_session.rs / shard_interface.rs *)
Example C16_facts : upload_failure_is_sticky = true /\ shards_uploaded_after_xorb_join = true /\ shard_upload_errors_propagated = true.
Proof. repeat split; reflexivity. Qed.

Example C16_nonvacuous : UInv u_init /\ finalize_join true (urun true u_init [URegister 1; URegister 2; UFinish 2 true; UFinish 1 true]) = Some true.
Proof. split; [exact UInv_init | reflexivity]. Qed.

Print Assumptions C16_invariant_every_history.
Print Assumptions C16_shards_follow_xorbs.
Print Assumptions C16_failure_fails_finalize.
