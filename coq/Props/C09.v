(* C09 -- Shard files answer every lookup exactly as the data they were built from.
   Statements only.  The codecs ser_X/de_X are generated from the write_*/read_* call sequences of
   the Rust serialize/deserialize functions on every run (Gen/ShardLayout.v). *)
From Coq Require Import NArith Bool List Permutation Sorted.
Import ListNotations.
From XetModel Require Import Base.Codec Gen.ShardLayout Model.Merkle Model.Shard Proofs.CodecProofs Proofs.ShardProofs Proofs.SearchProofs.
Open Scope N_scope.

(* every fixed-width record codec round-trips (whatever field order the source uses, as long as
   writer and reader agree; a mismatch makes these proofs fail) *)
Theorem C09_codec_file_header : forall h fl n u rest, is_hash h -> is_u32 fl -> is_u32 n -> is_u64 u ->
  de_FileDataSequenceHeader (ser_FileDataSequenceHeader h fl n u ++ rest) = Some ((h, fl, n, u), rest).
Proof. exact rt_FileDataSequenceHeader. Qed.
Theorem C09_codec_file_entry : forall h a b c d rest, is_hash h -> is_u32 a -> is_u32 b -> is_u32 c -> is_u32 d ->
  de_FileDataSequenceEntry (ser_FileDataSequenceEntry h a b c d ++ rest) = Some ((h, a, b, c, d), rest).
Proof. exact rt_FileDataSequenceEntry. Qed.
Theorem C09_codec_cas_header : forall h a b c d rest, is_hash h -> is_u32 a -> is_u32 b -> is_u32 c -> is_u32 d ->
  de_CASChunkSequenceHeader (ser_CASChunkSequenceHeader h a b c d ++ rest) = Some ((h, a, b, c, d), rest).
Proof. exact rt_CASChunkSequenceHeader. Qed.
Theorem C09_codec_cas_entry : forall h a b u rest, is_hash h -> is_u32 a -> is_u32 b -> is_u64 u ->
  de_CASChunkSequenceEntry (ser_CASChunkSequenceEntry h a b u ++ rest) = Some ((h, a, b, u), rest).
Proof. exact rt_CASChunkSequenceEntry. Qed.
Theorem C09_codec_shard_header : forall t v f rest, is_hash t -> is_u64 v -> is_u64 f ->
  de_MDBShardFileHeader (ser_MDBShardFileHeader t v f ++ rest) = Some ((t, v, f), rest).
Proof. exact rt_MDBShardFileHeader. Qed.

(* a file record (any flag combination, any number of segments, with or without verification and
   metadata entries) parses back to itself, followed by exactly the remaining bytes *)
Theorem C09_file_record_roundtrip : forall f rest, wf_file f -> parse_file_info (ser_file_info f ++ rest) = Some (Some f, rest).
Proof. exact parse_ser_file. Qed.
Theorem C09_cas_record_roundtrip : forall c rest, wf_cas c -> parse_cas_info (ser_cas_info c ++ rest) = Some (Some c, rest).
Proof. exact parse_ser_cas. Qed.

(* a whole section (records + bookend) scans back to exactly the records, in order, for any number of records *)
Theorem C09_file_section_scan : forall fs rest fuel, Forall wf_file fs -> (length fs < fuel)%nat ->
  parse_all parse_file_info fuel (flat_map ser_file_info fs ++ file_bookend ++ rest) = Some (fs, rest).
Proof. exact parse_all_files. Qed.
Theorem C09_cas_section_scan : forall cs rest fuel, Forall wf_cas cs -> (length cs < fuel)%nat ->
  parse_all parse_cas_info fuel (flat_map ser_cas_info cs ++ cas_bookend ++ rest) = Some (cs, rest).
Proof. exact parse_all_cas. Qed.

(* the lookup tables: for EVERY probe function (the code's f64 interpolation estimate, exact rationals, anything), every
   table sorted by key, every key and every cap > 0, the interpolation search of search_on_sorted_u64s stays inside
   its fuel and returns the first [cap] of exactly the values stored under the key -- all of them and nothing else
   (their order among equal keys is unspecified) *)
Theorem C09_lookup_search_exact : forall (V : Type) (probe : N -> N -> N -> N -> N -> N) (tbl : list (N * V)) key cap,
  StronglySorted (fun a b => fst a <= fst b) tbl -> (0 < cap)%nat ->
  exists l, search probe tbl cap key = Some (firstn cap l) /\ Permutation l (map snd (filter (fun e => fst e =? key) tbl)).
Proof. exact (fun V probe tbl key cap Hs => search_exact probe tbl key Hs cap). Qed.

(* non-vacuity: a record with both optional parts satisfies wf_file *)
Definition ex_h (b : N) : hash := repeat b 32%nat.
Definition ex_file : file_info :=
  mkFI (ex_h 7) (MDB_FILE_FLAG_WITH_VERIFICATION + MDB_FILE_FLAG_WITH_METADATA_EXT) 99
       [mkSeg (ex_h 1) 0 100 0 2; mkSeg (ex_h 2) 0 50 3 4] [ex_h 3; ex_h 4] (Some (ex_h 5)).
Example C09_nonvacuous : wf_file ex_file /\ parse_file_info (ser_file_info ex_file ++ [1; 2; 3]) = Some (Some ex_file, [1; 2; 3]).
Proof.
  split; [|vm_compute; reflexivity].
  unfold wf_file, ex_file, is_hash, is_u32, is_u64. cbn [fi_hash fi_flags fi_unused fi_segs fi_verif fi_ext].
  split; [reflexivity|]. split; [reflexivity|]. split; [reflexivity|]. split; [reflexivity|]. split; [reflexivity|].
  split; [repeat constructor; reflexivity|]. split; [repeat constructor|].
  split; [vm_compute; reflexivity|]. vm_compute. eexists. split; reflexivity.
Qed.

Print Assumptions C09_file_record_roundtrip.
Print Assumptions C09_cas_record_roundtrip.
Print Assumptions C09_file_section_scan.
Print Assumptions C09_cas_section_scan.
Print Assumptions C09_lookup_search_exact.
