(* C09 -- Shard files answer every lookup exactly as the data they were built from.
   Statements only.  The codecs ser_X/de_X are generated from the write_*/read_* call sequences of
   the Rust serialize/deserialize functions on every run (Gen/ShardLayout.v). *)
From Coq Require Import NArith Bool List Permutation Sorted.
Import ListNotations.
From XetModel Require Import Base.Codec Gen.ShardLayout Model.Merkle Model.Shard Proofs.CodecProofs Proofs.ShardProofs Proofs.SearchProofs Proofs.SetOpSortedProofs Proofs.ShardWholeProofs Proofs.ShardSizeProofs.
From XetModel Require Import Proofs.StreamProofs Proofs.MinimalReaderProofs Proofs.FooterTotalsProofs.
Open Scope N_scope.

(* every fixed-width record codec round-trips (whatever field order the source uses, as long as
   writer and reader agree; a mismatch makes these proofs fail) *)
Theorem C09_codec_file_header : forall h fl n u rest, is_hash h -> is_u32 fl -> is_u32 n -> is_u64 u ->
  de_FileDataSequenceHeader (ser_FileDataSequenceHeader h fl n u ++ rest) = Some ((h, fl, n, u), rest).
Proof. exact rt_FileDataSequenceHeader. Qed.
Theorem C09_codec_file_entry : forall h a b c d rest, is_hash h -> is_u32 a -> is_u32 b -> is_u32 c -> is_u32 d ->
  de_FileDataSequenceEntry (ser_FileDataSequenceEntry h a b c d ++ rest) = Some ((h, a, b, c, d), rest).
Proof. exact rt_FileDataSequenceEntry. Qed.
Theorem C09_codec_cas_header : forall h a b c d rest, is_hash h -> is_u32 a -> is_u32 b -> is_u32 c -> is_u32 d ->
  de_CASChunkSequenceHeader (ser_CASChunkSequenceHeader h a b c d ++ rest) = Some ((h, a, b, c, d), rest).
Proof. exact rt_CASChunkSequenceHeader. Qed.
Theorem C09_codec_cas_entry : forall h a b u rest, is_hash h -> is_u32 a -> is_u32 b -> is_u64 u ->
  de_CASChunkSequenceEntry (ser_CASChunkSequenceEntry h a b u ++ rest) = Some ((h, a, b, u), rest).
Proof. exact rt_CASChunkSequenceEntry. Qed.
Theorem C09_codec_shard_header : forall t v f rest, is_hash t -> is_u64 v -> is_u64 f ->
  de_MDBShardFileHeader (ser_MDBShardFileHeader t v f ++ rest) = Some ((t, v, f), rest).
Proof. exact rt_MDBShardFileHeader. Qed.

(* a file record (any flag combination, any number of segments, with or without verification and
   metadata entries) parses back to itself, followed by exactly the remaining bytes *)
Theorem C09_file_record_roundtrip : forall f rest, wf_file f -> parse_file_info (ser_file_info f ++ rest) = Some (Some f, rest).
Proof. exact parse_ser_file. Qed.
Theorem C09_cas_record_roundtrip : forall c rest, wf_cas c -> parse_cas_info (ser_cas_info c ++ rest) = Some (Some c, rest).
Proof. exact parse_ser_cas. Qed.

(* a whole section (records + bookend) scans back to exactly the records, in order, for any number of records *)
Theorem C09_file_section_scan : forall fs rest fuel, Forall wf_file fs -> (length fs < fuel)%nat ->
  parse_all parse_file_info fuel (flat_map ser_file_info fs ++ file_bookend ++ rest) = Some (fs, rest).
Proof. exact parse_all_files. Qed.
Theorem C09_cas_section_scan : forall cs rest fuel, Forall wf_cas cs -> (length cs < fuel)%nat ->
  parse_all parse_cas_info fuel (flat_map ser_cas_info cs ++ cas_bookend ++ rest) = Some (cs, rest).
Proof. exact parse_all_cas. Qed.

(* the lookup tables: for EVERY probe function (the code's f64 interpolation estimate, exact rationals, anything), every
   table sorted by key, every key and every cap > 0, the interpolation search of search_on_sorted_u64s stays inside
   its fuel and returns the first [cap] of exactly the values stored under the key -- all of them and nothing else
   (their order among equal keys is unspecified) *)
Theorem C09_lookup_search_exact : forall (V : Type) (probe : N -> N -> N -> N -> N -> N) (tbl : list (N * V)) key cap,
  StronglySorted (fun a b => fst a <= fst b) tbl -> (0 < cap)%nat ->
  exists l, search probe tbl cap key = Some (firstn cap l) /\ Permutation l (map snd (filter (fun e => fst e =? key) tbl)).
Proof. exact (fun V probe tbl key cap Hs => search_exact probe tbl key Hs cap). Qed.

(* non-vacuity: a record with both optional parts satisfies wf_file *)
Definition ex_h (b : N) : hash := repeat b 32%nat.
Definition ex_file : file_info :=
  mkFI (ex_h 7) (MDB_FILE_FLAG_WITH_VERIFICATION + MDB_FILE_FLAG_WITH_METADATA_EXT) 99
       [mkSeg (ex_h 1) 0 100 0 2; mkSeg (ex_h 2) 0 50 3 4] [ex_h 3; ex_h 4] (Some (ex_h 5)).
Example C09_nonvacuous : wf_file ex_file /\ parse_file_info (ser_file_info ex_file ++ [1; 2; 3]) = Some (Some ex_file, [1; 2; 3]).
Proof.
  split; [|vm_compute; reflexivity].
  unfold wf_file, ex_file, is_hash, is_u32, is_u64. cbn [fi_hash fi_flags fi_unused fi_segs fi_verif fi_ext].
  split; [reflexivity|]. split; [reflexivity|]. split; [reflexivity|]. split; [reflexivity|]. split; [reflexivity|].
  split; [repeat constructor; reflexivity|]. split; [repeat constructor|].
  split; [vm_compute; reflexivity|]. vm_compute. eexists. split; reflexivity.
Qed.

(* the whole file: the bytes serialize_with produces (w_bs), read back.  ShardOk: well-formed records, a 32-byte key, 64-bit
   totals, a shard below 4 GiB, byte-valued hashes.  The footer loads; both scans list exactly the records written; every
   stored file hash is found with exactly its record and every other hash is not found -- for EVERY probe function of the
   interpolation search, any number of records, as long as fewer than eight records share the truncated key (the code
   reports a collision error otherwise) and the records are sorted by hash, as the in-memory shard keeps them. *)
Theorem C09_footer_roundtrip : forall files cass ctbl key created expiry, ShardOk files cass ctbl key created expiry ->
  load_footer (w_bs files cass ctbl key created expiry) = Some (w_ft files cass ctbl key created expiry).
Proof. exact shard_footer_roundtrip. Qed.
Theorem C09_scans_list_all_records : forall files cass ctbl key created expiry, ShardOk files cass ctbl key created expiry ->
  read_all_files (w_bs files cass ctbl key created expiry) (w_ft files cass ctbl key created expiry) = Some files /\
  read_all_cas (w_bs files cass ctbl key created expiry) (w_ft files cass ctbl key created expiry) = Some cass.
Proof. exact shard_scans_list_all_records. Qed.
Theorem C09_stored_file_found : forall files cass ctbl key created expiry probe f, ShardOk files cass ctbl key created expiry ->
  KSorted fi_hash files -> In f files -> (length (matching (truncate_hash (fi_hash f)) (w_ftbl files)) < 8)%nat ->
  get_file_info probe (w_bs files cass ctbl key created expiry) (w_ft files cass ctbl key created expiry) (fi_hash f) = Found f.
Proof. exact shard_file_lookup_found. Qed.
Theorem C09_absent_file_not_found : forall files cass ctbl key created expiry probe h, ShardOk files cass ctbl key created expiry ->
  KSorted fi_hash files -> (forall g, In g files -> fi_hash g <> h) -> (length (matching (truncate_hash h) (w_ftbl files)) < 8)%nat ->
  get_file_info probe (w_bs files cass ctbl key created expiry) (w_ft files cass ctbl key created expiry) h = NotFound.
Proof. exact shard_file_lookup_notfound. Qed.
Example C09_whole_file_nonvacuous :
  let bs := w_bs [wx_f1; wx_f2] [] [] zero_hash 0 0 in let ft := w_ft [wx_f1; wx_f2] [] [] zero_hash 0 0 in
  load_footer bs = Some ft /\ get_file_info probe_exact bs ft (fi_hash wx_f2) = Found wx_f2 /\ get_file_info probe_exact bs ft (repeat 3 32%nat) = NotFound.
Proof. exact whole_file_example. Qed.

(* the size the in-memory shard accounts for is the length of what it serialises to, for every shard built by adding
   well-formed records (byte-valued 32-byte hashes) to the empty shard, with replacements; the facts "an overwritten
   record's size is subtracted" and "chunk-table entries are counted per occurrence" are regenerated from the source *)
Theorem C09_size_accounting_exact : forall ops, Forall mop_ok ops ->
  let m := fold_left mstep_add ops ms_empty in N.of_nat (length (serialize_from m)) = shard_file_size m.
Proof. exact built_shard_size_exact. Qed.


(* the streaming walk (process_shard_stream: header, then each section record by record up to its bookend, no footer, no lookup
   tables): over a serialized shard the callbacks are handed exactly the serialized records, in order, and each of them parses
   back to its record -- a streaming reader sees what the seekable scans list *)
Theorem C09_streaming_walk_lists_all_records : forall files cass ctbl key created expiry, Forall wf_file files -> Forall wf_cas cass ->
  stream_walk (w_bs files cass ctbl key created expiry) = Some (map ser_file_info files, map ser_cas_info cass).
Proof. exact stream_walk_serialized. Qed.
Theorem C09_streaming_walk_records_parse_back : forall files cass ctbl key created expiry, Forall wf_file files -> Forall wf_cas cass ->
  exists fb cb, stream_walk (w_bs files cass ctbl key created expiry) = Some (fb, cb)
    /\ Forall2 (fun b f => parse_file_info b = Some (Some f, [])) fb files
    /\ Forall2 (fun b c => parse_cas_info b = Some (Some c, [])) cb cass.
Proof. exact stream_walk_records. Qed.


(* the footer's totals: loaded back, the footer of a serialized shard reports exactly the sums over the records (bytes on disk
   and bytes stored over the xorb records, materialized bytes over the segments of the file records), the record counts of
   the lookup tables, the key and the times it was written with, and the offset at which it stands *)
Theorem C09_footer_totals : forall files cass ctbl key created expiry, ShardOk files cass ctbl key created expiry ->
  exists ft, load_footer (w_bs files cass ctbl key created expiry) = Some ft
    /\ ft_ondisk ft = sum_ndisk cass /\ ft_stored ft = sum_nbytes cass /\ ft_materialized ft = sum_materialized files
    /\ ft_file_lookup_num ft = N.of_nat (length (file_lookup_tbl files 0)) /\ ft_cas_lookup_num ft = N.of_nat (length (cas_lookup_tbl cass 0))
    /\ ft_chunk_lookup_num ft = N.of_nat (length ctbl) /\ ft_key ft = key /\ ft_created ft = created /\ ft_expiry ft = expiry
    /\ ft_footer_offset ft + 200 = N.of_nat (length (w_bs files cass ctbl key created expiry)).
Proof. exact footer_totals. Qed.
Theorem C09_lookup_table_lengths : forall files cass i j, length (file_lookup_tbl files i) = length files /\ length (cas_lookup_tbl cass j) = length cass.
Proof. exact lookup_tbl_lengths. Qed.

Print Assumptions C09_file_record_roundtrip.
Print Assumptions C09_cas_record_roundtrip.
Print Assumptions C09_file_section_scan.
Print Assumptions C09_cas_section_scan.
Print Assumptions C09_lookup_search_exact.
Print Assumptions C09_footer_roundtrip.
Print Assumptions C09_scans_list_all_records.
Print Assumptions C09_stored_file_found.
Print Assumptions C09_absent_file_not_found.
Print Assumptions C09_size_accounting_exact.
(* the minimal reader built on the walk (MDBMinimalShard::from_reader): over a serialized shard its buffer is exactly the two
   record sections as written, it notes one offset per record -- where that record begins -- and the xorb section starts where
   the file section ends; asked for neither section it keeps the two end markers only *)
Theorem C09_minimal_reader_holds_the_record_sections : forall files cass ctbl key created expiry, Forall wf_file files -> Forall wf_cas cass ->
  minimal_from_reader (w_bs files cass ctbl key created expiry) true true =
  Some (mkMin (w_fsec files ++ w_csec cass) (offsets_from 0 (map ser_file_info files))
              (offsets_from (N.of_nat (length (w_fsec files))) (map ser_cas_info cass)) (N.of_nat (length (w_fsec files)))).
Proof. exact minimal_reader_serialized. Qed.
Theorem C09_minimal_reader_asked_for_nothing : forall files cass ctbl key created expiry, Forall wf_file files ->
  minimal_from_reader (w_bs files cass ctbl key created expiry) false false = Some (mkMin (file_bookend ++ cas_bookend) [] [] 48).
Proof. exact minimal_reader_nothing. Qed.
Theorem C09_minimal_reader_offsets_point_at_records : forall blobs pos rest i o b, nth_error (offsets_from pos blobs) i = Some o -> nth_error blobs i = Some b ->
  exists pre, N.of_nat (length pre) + pos = o /\ exists post, concat blobs ++ rest = pre ++ b ++ post.
Proof. exact offsets_from_spec. Qed.

Print Assumptions C09_streaming_walk_lists_all_records.
Print Assumptions C09_streaming_walk_records_parse_back.
Print Assumptions C09_footer_totals.
Print Assumptions C09_minimal_reader_holds_the_record_sections.
Print Assumptions C09_minimal_reader_offsets_point_at_records.
