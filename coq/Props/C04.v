(* C04 -- Chunking is a deterministic, content-defined, bounded function of the stream.
   This file holds only statements; each is closed by [exact] of a lemma in Proofs/. *)
From Coq Require Import NArith Bool List.
Import ListNotations.
From XetModel Require Import Gen.GearTable Gen.ChunkConsts Model.Chunker Proofs.ChunkerProofs Proofs.ChunkerLaws.
Open Scope N_scope.

(* The literal transcription of Chunker::next agrees with the byte-at-a-time machine. *)
Theorem C04_next_is_machine : forall c s data fin, wf c -> Inv c s -> next c s data fin = next_spec c s data fin.
Proof. exact next_is_machine. Qed.

(* Any API-consistent sequence of next_block calls followed by finish yields exactly the chunks
   of the closed-form reference rule applied to the concatenated stream. *)
Theorem C04_chunks_match_reference : forall target c calls,
  chunker_new target = Some c -> api_ok calls = true ->
  run_calls c st0 calls = Some (spec_chunks c (concat (map fst calls))).
Proof. exact L_match_reference. Qed.

Theorem C04_chunks_partition_invariant : forall target c calls1 calls2,
  chunker_new target = Some c -> api_ok calls1 = true -> api_ok calls2 = true ->
  concat (map fst calls1) = concat (map fst calls2) ->
  run_calls c st0 calls1 = run_calls c st0 calls2 /\ run_calls c st0 calls1 <> None.
Proof. exact L_partition_invariant. Qed.

Theorem C04_chunks_concat : forall target c calls chs,
  chunker_new target = Some c -> api_ok calls = true ->
  run_calls c st0 calls = Some chs -> concat chs = concat (map fst calls).
Proof. exact L_concat. Qed.

(* every chunk is non-empty and <= max; every chunk except possibly the stream's last has
   length + 64 >= min *)
Theorem C04_chunks_bounded : forall target c data, chunker_new target = Some c ->
  exists body tail, spec_chunks c data = body ++ tail /\ (length tail <= 1)%nat /\
    Forall (fun ch => 1 <= N.of_nat (length ch) /\ N.of_nat (length ch) <= c_max c /\
                      c_min c <= N.of_nat (length ch) + HASH_WINDOW_SIZE) body /\
    Forall (fun ch => 1 <= N.of_nat (length ch) /\ N.of_nat (length ch) <= c_max c) tail.
Proof. exact L_bounded. Qed.

(* content-definedness: after a prefix that ends on a rule-made boundary the remainder is chunked
   as if it were a stream of its own *)
Theorem C04_chunks_local : forall target c a b, chunker_new target = Some c ->
  snd (feed c st0 a) = st0 -> spec_chunks c (a ++ b) = spec_chunks c a ++ spec_chunks c b.
Proof. exact L_local. Qed.

Theorem C04_new_guard : forall target c, chunker_new target = Some c ->
  is_pow2 target = true /\ 64 < target /\ target < 4294967295 /\ c_min c < c_max c /\
  c_min c = chunker_minimum target /\ c_max c = chunker_maximum target.
Proof. exact L_new_guard. Qed.

(* with the constants of the current source, every power-of-two target 2^7..2^31 is accepted *)
Theorem C04_new_total : forall k, 7 <= k <= 31 -> exists c, chunker_new (2 ^ k) = Some c.
Proof. exact L_new_total. Qed.

(* non-vacuity: the hypotheses are met by a concrete non-trivial run (target 128; a 600-byte stream
   split into three calls, one of them empty; several chunks come out) *)
Definition ex_c : cfg := match chunker_new 128 with Some c => c | None => {| c_min := 0; c_max := 0; c_mask := 0 |} end.
Definition ex_data : list N := map (fun i => (i * i * 7 + i * 13) mod 256) (map N.of_nat (seq 0 600)).
Example C04_nonvacuous :
  chunker_new 128 = Some ex_c /\
  api_ok [(firstn 100 ex_data, false); ([], false); (skipn 100 ex_data, true)] = true /\
  (exists chs, run_calls ex_c st0 [(firstn 100 ex_data, false); ([], false); (skipn 100 ex_data, true)] = Some chs /\ (3 <= length chs)%nat) /\
  snd (feed ex_c st0 (firstn 109 ex_data)) = st0.
Proof. vm_compute. repeat split. eexists. split; [reflexivity|]. repeat constructor. Qed.

Print Assumptions C04_next_is_machine.
Print Assumptions C04_chunks_match_reference.
Print Assumptions C04_chunks_partition_invariant.
Print Assumptions C04_chunks_concat.
Print Assumptions C04_chunks_bounded.
Print Assumptions C04_chunks_local.
Print Assumptions C04_new_guard.
Print Assumptions C04_new_total.
