(* C07 -- Xorb serialization round-trips for every chunk range and compression.  Statements only.
   lz4c/lz4d: any frame codec with lz4d (lz4c x) = Some x; choose: any automatic scheme choice in {0,1,2}. *)
From Coq Require Import NArith Bool List.
Import ListNotations.
From XetModel Require Import Base.Codec Gen.HashConsts Gen.XorbLayout Model.Merkle Model.Shard Model.Xorb
  Proofs.CodecProofs Proofs.Bg4Proofs Proofs.XorbProofs Proofs.XorbFooterProofs Proofs.XorbWholeProofs Proofs.XorbRangeProofs.
Open Scope N_scope.

(* byte grouping: regroup . split = id for every byte string, and every index the pointer arithmetic of
   the unsafe split/regroup code touches lies inside the buffer *)
Theorem C07_bg4_roundtrip : forall x, bg4_regroup (bg4_split x) = x.
Proof. exact bg4_regroup_split. Qed.
Theorem C07_bg4_in_bounds : forall n j, (j < n)%nat -> (bg4_index n j < n)%nat.
Proof. exact bg4_index_in_bounds. Qed.

(* a chunk (1 byte .. MAXIMUM_CHUNK_SIZE) written under any scheme (explicit or automatic) is read back exactly,
   with the consumed length and the rest of the stream; sync and async/stream decoders agree *)
Theorem C07_chunk_roundtrip : forall lz4c lz4d choose,
  (forall x, lz4d (lz4c x) = Some x) -> (forall x, choose x <= MAX_SCHEME) ->
  forall chunk scheme rest, scheme_valid scheme -> chunk_valid chunk ->
  deserialize_chunk lz4d (serialize_chunk lz4c choose chunk scheme ++ rest) =
  ROk (chunk, 8 + N.of_nat (length (payload_of lz4c choose chunk scheme)), N.of_nat (length chunk), rest).
Proof. exact chunk_roundtrip. Qed.
Theorem C07_decoders_agree : forall lz4c lz4d choose,
  (forall x, lz4d (lz4c x) = Some x) -> (forall x, choose x <= MAX_SCHEME) ->
  forall chunk scheme rest, scheme_valid scheme -> chunk_valid chunk ->
  deserialize_chunk_async lz4d (serialize_chunk lz4c choose chunk scheme ++ rest) =
  deserialize_chunk lz4d (serialize_chunk lz4c choose chunk scheme ++ rest).
Proof. exact chunk_roundtrip_async. Qed.

(* incompressible fallback: the stored payload is never longer than the chunk; scheme None carries the raw bytes *)
Theorem C07_fallback_sound : forall lz4c (lz4d : list N -> option (list N)) choose,
  (forall x, lz4d (lz4c x) = Some x) -> (forall x, choose x <= MAX_SCHEME) -> forall chunk scheme,
  (length (payload_of lz4c choose chunk scheme) <= length chunk)%nat /\
  (used_scheme lz4c choose chunk scheme = 0 -> payload_of lz4c choose chunk scheme = chunk) /\
  (used_scheme lz4c choose chunk scheme <> 0 -> (length (payload_of lz4c choose chunk scheme) < length chunk)%nat).
Proof. exact fallback_sound. Qed.

(* the V1 footer parses back to itself, and CasObject::deserialize finds it at the end of body ++ footer ++ length *)
Theorem C07_footer_roundtrip : forall i rest, wf_info i -> parse_info (ser_info i ++ rest) = ROk (i, info_len i).
Proof. exact parse_ser_info. Qed.

(* whole xorb: deserialize returns hashes as given, boundaries = cumulative physical chunk ends, unpacked offsets =
   cumulative chunk lengths, num_chunks = number of chunks (built_info); get_all_bytes returns the concatenation *)
Theorem C07_xorb_footer_roundtrip : forall lz4c (lz4d : list N -> option (list N)) choose,
  (forall x, lz4d (lz4c x) = Some x) -> (forall x, choose x <= MAX_SCHEME) -> forall cashash chunks hashes scheme,
  xorb_input_ok cashash chunks hashes -> fold_right N.add 0 (phys_lens lz4c choose chunks scheme) < 4294967296 ->
  xorb_deserialize (xorb_serialize lz4c choose cashash chunks hashes scheme) =
  ROk (built_info lz4c choose cashash chunks hashes scheme, info_len (built_info lz4c choose cashash chunks hashes scheme)).
Proof. exact xorb_footer_roundtrip. Qed.
Theorem C07_xorb_get_all_bytes : forall lz4c lz4d choose,
  (forall x, lz4d (lz4c x) = Some x) -> (forall x, choose x <= MAX_SCHEME) ->
  forall cashash chunks hashes scheme,
  xorb_input_ok cashash chunks hashes -> fold_right N.add 0 (phys_lens lz4c choose chunks scheme) < 4294967296 ->
  chunks <> [] -> bytes_eqb cashash zero_hash = false -> scheme_valid scheme ->
  get_all_bytes lz4d (built_info lz4c choose cashash chunks hashes scheme) (xorb_serialize lz4c choose cashash chunks hashes scheme) =
  ROk (concat chunks).
Proof. exact xorb_get_all_bytes. Qed.

(* every chunk range [a, b): the bytes read back are exactly the concatenation of chunks a .. b-1, and the length the footer
   reports for the range is the length of that concatenation *)
Theorem C07_xorb_get_chunk_range : forall lz4c lz4d choose,
  (forall x, lz4d (lz4c x) = Some x) -> (forall x, choose x <= MAX_SCHEME) ->
  forall cashash chunks hashes scheme a b,
  xorb_input_ok cashash chunks hashes -> fold_right N.add 0 (phys_lens lz4c choose chunks scheme) < 4294967296 ->
  bytes_eqb cashash zero_hash = false -> scheme_valid scheme -> a < b -> b <= N.of_nat (length chunks) ->
  get_bytes_by_chunk_range lz4d (built_info lz4c choose cashash chunks hashes scheme) (xorb_serialize lz4c choose cashash chunks hashes scheme) a b =
  ROk (concat (firstn (N.to_nat (b - a)) (skipn (N.to_nat a) chunks))).
Proof. exact xorb_get_chunk_range. Qed.
Theorem C07_xorb_range_length : forall lz4c choose cashash chunks hashes scheme a b,
  xorb_input_ok cashash chunks hashes -> bytes_eqb cashash zero_hash = false ->
  a <= b -> b <= N.of_nat (length chunks) -> a < N.of_nat (length chunks) ->
  uncompressed_range_length (built_info lz4c choose cashash chunks hashes scheme) a b =
  ROk (N.of_nat (length (concat (firstn (N.to_nat (b - a)) (skipn (N.to_nat a) chunks))))).
Proof. exact xorb_uncompressed_range_length. Qed.
(* two adjacent chunk ranges read back to pieces whose concatenation is the read of their union: a term split over two fetches
   (or a fetch covering two terms) loses and repeats no byte *)
Theorem C07_adjacent_ranges_concat : forall lz4c lz4d choose,
  (forall x, lz4d (lz4c x) = Some x) -> (forall x, choose x <= MAX_SCHEME) ->
  forall cashash chunks hashes scheme a b c,
  xorb_input_ok cashash chunks hashes -> fold_right N.add 0 (phys_lens lz4c choose chunks scheme) < 4294967296 ->
  bytes_eqb cashash zero_hash = false -> scheme_valid scheme -> a < b -> b < c -> c <= N.of_nat (length chunks) ->
  let rd := get_bytes_by_chunk_range lz4d (built_info lz4c choose cashash chunks hashes scheme) (xorb_serialize lz4c choose cashash chunks hashes scheme) in
  exists x y, rd a b = ROk x /\ rd b c = ROk y /\ rd a c = ROk (x ++ y).
Proof. exact xorb_adjacent_ranges_concat. Qed.
(* the error branch of the range reads: an empty, inverted or out-of-range chunk range is refused (InvalidArguments) whatever the
   bytes are -- never a panic, never bytes *)
Theorem C07_bad_range_refused : forall lz4c lz4d choose cashash chunks hashes scheme bs a b,
  xorb_input_ok cashash chunks hashes -> bytes_eqb cashash zero_hash = false -> chunks <> [] ->
  b <= a \/ N.of_nat (length chunks) < b ->
  get_bytes_by_chunk_range lz4d (built_info lz4c choose cashash chunks hashes scheme) bs a b = RErr.
Proof. exact xorb_bad_range_refused. Qed.
Theorem C07_bad_range_length_refused : forall lz4c choose cashash chunks hashes scheme a b,
  xorb_input_ok cashash chunks hashes -> bytes_eqb cashash zero_hash = false -> chunks <> [] ->
  b < a \/ N.of_nat (length chunks) < b \/ N.of_nat (length chunks) <= a ->
  uncompressed_range_length (built_info lz4c choose cashash chunks hashes scheme) a b = RErr.
Proof. exact xorb_bad_range_length_refused. Qed.
(* the two read paths agree: the range of all chunks reads back what get_all_bytes returns *)
Theorem C07_full_range_is_all_bytes : forall lz4c lz4d choose,
  (forall x, lz4d (lz4c x) = Some x) -> (forall x, choose x <= MAX_SCHEME) ->
  forall cashash chunks hashes scheme,
  xorb_input_ok cashash chunks hashes -> fold_right N.add 0 (phys_lens lz4c choose chunks scheme) < 4294967296 ->
  chunks <> [] -> bytes_eqb cashash zero_hash = false -> scheme_valid scheme ->
  get_bytes_by_chunk_range lz4d (built_info lz4c choose cashash chunks hashes scheme) (xorb_serialize lz4c choose cashash chunks hashes scheme) 0 (N.of_nat (length chunks)) =
  get_all_bytes lz4d (built_info lz4c choose cashash chunks hashes scheme) (xorb_serialize lz4c choose cashash chunks hashes scheme).
Proof. exact xorb_full_range_is_all_bytes. Qed.
(* the length the footer reports for a chunk range is the length of the bytes the range read returns *)
Theorem C07_range_length_is_length_of_range : forall lz4c lz4d choose,
  (forall x, lz4d (lz4c x) = Some x) -> (forall x, choose x <= MAX_SCHEME) ->
  forall cashash chunks hashes scheme a b,
  xorb_input_ok cashash chunks hashes -> fold_right N.add 0 (phys_lens lz4c choose chunks scheme) < 4294967296 ->
  bytes_eqb cashash zero_hash = false -> scheme_valid scheme -> a < b -> b <= N.of_nat (length chunks) ->
  exists d,
    get_bytes_by_chunk_range lz4d (built_info lz4c choose cashash chunks hashes scheme) (xorb_serialize lz4c choose cashash chunks hashes scheme) a b = ROk d /\
    uncompressed_range_length (built_info lz4c choose cashash chunks hashes scheme) a b = ROk (N.of_nat (length d)).
Proof. exact xorb_range_length_is_length_of_range. Qed.
Example C07_range_nonvacuous :
  let lz4c := fun x : list N => x in let lz4d := fun x : list N => Some x in let choose := fun _ : list N => 2 in
  get_bytes_by_chunk_range lz4d (built_info lz4c choose (repeat 5 32%nat) [[1; 2; 3]; [9]; [7; 7]] [repeat 1 32%nat; repeat 2 32%nat; repeat 3 32%nat] None)
                (xorb_serialize lz4c choose (repeat 5 32%nat) [[1; 2; 3]; [9]; [7; 7]] [repeat 1 32%nat; repeat 2 32%nat; repeat 3 32%nat] None) 1 3
  = ROk [9; 7; 7].
Proof. cbv zeta. vm_compute. reflexivity. Qed.

(* the adjacent-range and error-branch theorems on a concrete three-chunk xorb *)
Example C07_adjacent_ranges_nonvacuous :
  let lz4c := fun x : list N => x in let lz4d := fun x : list N => Some x in let choose := fun _ : list N => 2 in
  let rd := get_bytes_by_chunk_range lz4d (built_info lz4c choose (repeat 5 32%nat) [[1; 2; 3]; [9]; [7; 7]] [repeat 1 32%nat; repeat 2 32%nat; repeat 3 32%nat] None)
                (xorb_serialize lz4c choose (repeat 5 32%nat) [[1; 2; 3]; [9]; [7; 7]] [repeat 1 32%nat; repeat 2 32%nat; repeat 3 32%nat] None) in
  rd 0 1 = ROk [1; 2; 3] /\ rd 1 3 = ROk [9; 7; 7] /\ rd 0 3 = ROk ([1; 2; 3] ++ [9; 7; 7]) /\ rd 2 2 = RErr /\ rd 3 1 = RErr /\ rd 1 4 = RErr.
Proof. cbv zeta. vm_compute. repeat split; reflexivity. Qed.

(* non-vacuity: an identity "codec" satisfies the hypothesis; a two-chunk xorb under scheme bg4 *)
Example C07_nonvacuous :
  let lz4c := fun x : list N => x in let lz4d := fun x : list N => Some x in let choose := fun _ : list N => 2 in
  (forall x, lz4d (lz4c x) = Some x) /\
  get_all_bytes lz4d (built_info lz4c choose (repeat 5 32%nat) [[1; 2; 3; 4; 5]; [9]] [repeat 1 32%nat; repeat 2 32%nat] None)
                (xorb_serialize lz4c choose (repeat 5 32%nat) [[1; 2; 3; 4; 5]; [9]] [repeat 1 32%nat; repeat 2 32%nat] None)
  = ROk [1; 2; 3; 4; 5; 9].
Proof. cbv zeta. split; [reflexivity|]. vm_compute. reflexivity. Qed.

Print Assumptions C07_bg4_roundtrip.
Print Assumptions C07_chunk_roundtrip.
Print Assumptions C07_xorb_footer_roundtrip.
Print Assumptions C07_xorb_get_all_bytes.
Print Assumptions C07_xorb_get_chunk_range.
Print Assumptions C07_xorb_range_length.
Print Assumptions C07_adjacent_ranges_concat.
Print Assumptions C07_bad_range_refused.
Print Assumptions C07_bad_range_length_refused.
Print Assumptions C07_full_range_is_all_bytes.
Print Assumptions C07_range_length_is_length_of_range.
