(* C15 -- No xorb or chunk exceeds the configured and wire-format limits.  Statements only. *)
From Coq Require Import NArith Bool List.
Import ListNotations.
From XetModel Require Import Base.Codec Gen.ShardLayout Gen.DedupFacts Model.Merkle Model.Shard Model.Dedup Proofs.PipelineProofs.
Open Scope N_scope.

(* for every oracle and every fragmentation decision: each xorb handed to register_new_xorb is non-empty, holds at most
   MAX_XORB_CHUNKS chunks and at most MAX_XORB_BYTES bytes, and the pending data stays within both limits --
   provided 1 <= MAX_XORB_CHUNKS and no chunk is longer than MAX_XORB_BYTES *)
Theorem C15_xorb_limits : forall bbd cf f chunks answers, cfg_ok cf -> Forall (chunk_fits cf) chunks -> fd_ok cf f ->
  fd_ok cf (process_chunks bbd cf f chunks answers).
Proof. exact process_chunks_limits. Qed.
Theorem C15_initial_state_ok : forall cf, fd_ok cf fd0.
Proof. exact fd0_ok. Qed.

(* the session aggregator never exceeds either limit (merge and cut-with-swap branches) *)
Theorem C15_aggregator_limits : forall rc cf s file m, agg_ok cf (s_cur s) -> agg_ok cf file ->
  agg_ok cf (s_cur (register_completion rc cf s file m)).
Proof. exact register_completion_limits. Qed.

Print Assumptions C15_xorb_limits.
Print Assumptions C15_aggregator_limits.
