(* C15 -- No xorb or chunk exceeds the configured and wire-format limits.  Statements only. *)
From Coq Require Import NArith Bool List.
Import ListNotations.
From XetModel Require Import Base.Codec Gen.ShardLayout Gen.DedupFacts Model.Merkle Model.Shard Model.Dedup Proofs.PipelineProofs Proofs.ResolveProofs Proofs.NoSelfRefProofs Proofs.LimitsProofs.
Open Scope N_scope.

(* for every oracle and every fragmentation decision: each xorb handed to register_new_xorb is non-empty, holds at most
   MAX_XORB_CHUNKS chunks and at most MAX_XORB_BYTES bytes, and the pending data stays within both limits --
   provided 1 <= MAX_XORB_CHUNKS and no chunk is longer than MAX_XORB_BYTES *)
Theorem C15_xorb_limits : forall bbd cf f chunks answers, cfg_ok cf -> Forall (chunk_fits cf) chunks -> fd_ok cf f ->
  fd_ok cf (process_chunks bbd cf f chunks answers).
Proof. exact process_chunks_limits. Qed.
Theorem C15_initial_state_ok : forall cf, fd_ok cf fd0.
Proof. exact fd0_ok. Qed.

(* the session aggregator never exceeds either limit (merge and cut-with-swap branches) *)
Theorem C15_aggregator_limits : forall rc cf s file m, agg_ok cf (s_cur s) -> agg_ok cf file ->
  agg_ok cf (s_cur (register_completion rc cf s file m)).
Proof. exact register_completion_limits. Qed.

(* no file record is emitted with an unresolved xorb reference: after finalize every segment of every record in the session
   shard spans at least one chunk and names a xorb other than the all-zero placeholder of the pending data (premises as for
   C01_session_records_resolve) *)
Theorem C15_no_unresolved_reference : forall F U, StoreOk F U -> forall rc cf ops, Forall (op_ok F U) ops ->
  (forall x, In x (s_uploaded (srun rc cf ops)) -> In x F) ->
  forall fi s, In fi (s_shard_files (srun rc cf ops)) -> In s (fi_segs fi) -> sg_cas s <> zero_hash /\ sg_start s < sg_end s.
Proof. exact session_no_unresolved_reference. Qed.


(* composed over a whole session: every xorb handed to the store -- cut in mid-file, cut by the session when the aggregated
   data would pass a limit (either branch of the swap), or cut at finalize -- is non-empty and within both limits, for every
   sequence of completions and mid-file registrations whose parts are within the limits ... *)
Theorem C15_session_uploads_within_limits : forall rc cf ops, Forall (op_lim cf) ops -> Forall (xorb_ok cf) (s_uploaded (srun rc cf ops)).
Proof. exact session_uploads_within_limits. Qed.
(* ... which is what files fed through the deduper hand over (any block split, any table, chunks of 1..MAX_XORB_BYTES bytes) *)
Theorem C15_file_ops_within_limits : forall bbd cf ext blocks salt sha m g, cfg_ok cf -> (forall b c, In b blocks -> In c b -> chunk_fits cf c) ->
  let f := feed_blocks bbd cf ext fd0 blocks in
  op_lim cf (OpMid (rev (f_registered f))) /\ (Forall (fun c => 1 <= snd c) (f_new f) -> op_lim cf (OpFile (snd (fst (fst (fd_finalize f salt sha)))) m g)).
Proof. exact file_ops_within_limits. Qed.
Example C15_session_limits_example :
  Forall (op_lim ex_cfg2) ex_ops /\ Forall (xorb_ok ex_cfg2) (s_uploaded (srun true ex_cfg2 ex_ops)) /\ length (s_uploaded (srun true ex_cfg2 ex_ops)) = 1%nat.
Proof. exact limits_example. Qed.

Print Assumptions C15_xorb_limits.
Print Assumptions C15_aggregator_limits.
Print Assumptions C15_no_unresolved_reference.
Print Assumptions C15_session_uploads_within_limits.
Print Assumptions C15_file_ops_within_limits.
