(* C13 -- Chunk-cache accounting is exact and the capacity bound holds.  Statements only.
   The model (Model/Cache.v) runs any number of threads; every micro step is one lock-protected block or one
   file-system action; eviction victims are arbitrary lists accepted by [evict_ok] (every victim is tracked and is picked
   while the removed total is still short).  [bytes_removed_for_every_entry] is regenerated from put_impl on every run. *)
From Coq Require Import ZArith NArith Bool List.
Import ListNotations.
From XetModel Require Import Base.Codec Gen.CacheFacts Model.Merkle Model.Cache Proofs.CacheProofs Proofs.CacheInvProofs Proofs.CacheOrphanProofs Proofs.CacheScanProofs Proofs.Base64Proofs Proofs.CacheReopenProofs Proofs.CacheScanCompleteProofs.
Open Scope N_scope.

(* num_items and total_bytes equal the count and the summed lengths of the tracked entries after every micro step of
   every thread, whatever the victims *)
Theorem C13_step_keeps_counters_exact : forall s p vs s' p',
  Acc s -> mstep s p vs = (s', p', true) -> Acc s' /\ cap s' = cap s.
Proof. exact (fun s p vs s' p' => mstep_acc s p vs s' p' eq_refl). Qed.

(* hence in every reachable configuration: any number of threads, any schedule, any calls, including identical puts *)
Theorem C13_counters_exact_every_schedule : forall es c c',
  Acc (fst c) -> crun c es = Some c' -> Acc (fst c') /\ cap (fst c') = cap (fst c).
Proof. exact (fun es c c' => crun_acc es c c' eq_refl). Qed.

(* right after the commit of an insertion the byte total is within the capacity, provided the item alone fits *)
Theorem C13_capacity_after_insert : forall s o nw vs s' p',
  Acc s -> i_len nw <= cap s -> mstep s (PHookFW o nw) vs = (s', p', true) -> tbytes s' <= cap s'.
Proof. exact (fun s o nw vs s' p' => commit_step_capacity s o nw vs s' p' eq_refl). Qed.

(* no orphan files: in every reachable configuration every file on disk is tracked, or was just written by a put that
   has not committed yet, or is queued for deletion by a put that has committed, or is about to be unlinked by a thread
   that dropped its entry; so at a quiescent point every file belongs to a tracked entry *)
Theorem C13_no_orphan_every_schedule : forall es c c', NoOrphan c -> crun c es = Some c' -> NoOrphan c'.
Proof. exact crun_no_orphan. Qed.
Theorem C13_quiescent_every_file_tracked : forall c, NoOrphan c -> Forall (fun p => exists r, p = PDone r) (snd c) ->
  forall p content, fs_read (fs (fst c)) p = Some content -> exists k it v, p = item_path k it /\ InTr (tracked (fst c)) k (it, v).
Proof. exact quiescent_all_tracked. Qed.
Theorem C13_no_orphan_initially : forall capacity n,
  NoOrphan ({| tracked := []; nitems := 0; tbytes := 0; fs := []; cap := capacity |}, repeat (PDone COk) n).
Proof. exact NoOrphan_empty. Qed.

(* the shape the source had before the repair (the byte total not reduced for a removed entry equal to the inserted one):
   two identical puts both past the lookup leave total_bytes at twice the item length with one entry tracked *)
Theorem C13_drift_refuted :
  (nitems (ex_after_second false), tbytes (ex_after_second false), total_len (tracked (ex_after_second false))) = (1, 42, 21) /\
  (nitems (ex_after_second true), tbytes (ex_after_second true), total_len (tracked (ex_after_second true))) = (1, 21, 21).
Proof. exact drift_refuted. Qed.

Example C13_fact_bytes_removed_for_every_entry : bytes_removed_for_every_entry = true.
Proof. reflexivity. Qed.

(* non-vacuity: the empty cache satisfies the invariant, and one put run alone to completion is an enabled history *)
Example C13_nonvacuous : Acc ex_s0 /\ exists c', crun (ex_s0, [PDone COk]) [EStart 0 ex_put; EStep 0 []; EStep 0 []; EStep 0 []; EStep 0 []] = Some c' /\ tbytes (fst c') = 21.
Proof. split; [split; reflexivity|]. eexists. split; [vm_compute; reflexivity | reflexivity]. Qed.

(* re-opening: when DiskCache::initialize succeeds on a directory listing in which no two key directories decode to the
   same key (every directory the cache wrote itself), the counters it reports are exactly the count and the summed lengths
   of the entries it tracks (b64d/utf8: the name decoders, arbitrary) *)
Theorem C13_scan_accounting : forall b64d utf8 capacity tree s,
  NoDup (keys_of_tree b64d utf8 tree) -> initialize b64d utf8 capacity tree = Some (inr s) -> Acc s.
Proof. exact initialize_acc. Qed.
(* the premise is needed (a copy of a key directory planted under a prefix directory that differs only in letter case is
   counted twice and tracked once); replayed on the real cache, see DESIGN.md 12.3, observations *)
Theorem C13_scan_duplicate_key_refuted :
  exists s, initialize (fun b => Some b) (fun _ => true) 100 sx_tree = Some (inr s) /\ nitems s = 2 /\ total_count (tracked s) = 1 /\ ~ Acc s.
Proof. exact scan_duplicate_key_refuted. Qed.
Example C13_scan_accounting_nonvacuous :
  let tree := [ {| p_name := [65; 66]; p_kind := 1; p_keys := [sx_kdir] |} ] in
  NoDup (keys_of_tree (fun b => Some b) (fun _ => true) tree) /\
  exists s, initialize (fun b => Some b) (fun _ => true) 100 tree = Some (inr s) /\ nitems s = 1.
Proof. exact scan_acc_example. Qed.


(* re-opening establishes the no-orphan invariant: when the scan runs to the end of the listing (no stop at twice the capacity)
   over a directory as the cache writes it with this capacity -- prefix directories, key directories whose names decode (no
   two to one key), regular files no larger than the capacity -- every file left on disk belongs to a tracked entry (files
   whose name and length do not describe an item are deleted), and so it stays under every later schedule.  The decoder is
   the strict canonical one (assumption about the base64 crate, as in C12) *)
Theorem C13_reopen_then_no_orphan : forall (b64d : bytes -> option bytes) (utf8 : bytes -> bool),
  (forall n b, b64d n = Some b -> b64pad b = n /\ Forall is_byte b) ->
  forall capacity tree s n, TreeCanon tree -> NoDup (keys_of_tree b64d utf8 tree) -> DirAsWritten b64d utf8 capacity tree ->
  initialize b64d utf8 capacity tree = Some (inr s) -> a_stop (cscan b64d utf8 capacity tree) = false ->
  forall es c', crun (s, repeat (PDone COk) n) es = Some c' -> NoOrphan c'.
Proof. exact reopen_then_no_orphan. Qed.
(* the premise "the scan ran to its end" follows from the directory's size: files that add up to less than twice the capacity
   (as they do in a directory this cache filled under this capacity) *)
Theorem C13_reopen_small_directory_no_orphan : forall (b64d : bytes -> option bytes) (utf8 : bytes -> bool),
  (forall n b, b64d n = Some b -> b64pad b = n /\ Forall is_byte b) ->
  forall capacity tree s n, TreeCanon tree -> NoDup (keys_of_tree b64d utf8 tree) -> DirAsWritten b64d utf8 capacity tree ->
  (forall p kd f, In p tree -> In kd (p_keys p) -> In f (k_files kd) -> lenN (f_content f) <= DEFAULT_CHUNK_CACHE_CAPACITY) ->
  tree_bytes tree < SCAN_STOP_FACTOR * capacity ->
  initialize b64d utf8 capacity tree = Some (inr s) ->
  forall es c', crun (s, repeat (PDone COk) n) es = Some c' -> NoOrphan c'.
Proof. exact reopen_small_directory_no_orphan. Qed.
Example C13_reopen_no_orphan_nonvacuous :
  TreeCanon rx_tree /\ NoDup (keys_of_tree rx_dec (fun _ => true) rx_tree) /\ DirAsWritten rx_dec (fun _ => true) 100 rx_tree
  /\ a_stop (cscan rx_dec (fun _ => true) 100 rx_tree) = false
  /\ exists s, initialize rx_dec (fun _ => true) 100 rx_tree = Some (inr s) /\ NoOrphan (s, repeat (PDone COk) 2).
Proof. exact scan_complete_example. Qed.

Print Assumptions C13_step_keeps_counters_exact.
Print Assumptions C13_counters_exact_every_schedule.
Print Assumptions C13_capacity_after_insert.
Print Assumptions C13_drift_refuted.
Print Assumptions C13_no_orphan_every_schedule.
Print Assumptions C13_quiescent_every_file_tracked.
Print Assumptions C13_scan_accounting.
Print Assumptions C13_reopen_then_no_orphan.
Print Assumptions C13_reopen_no_orphan_nonvacuous.
Print Assumptions C13_reopen_small_directory_no_orphan.
