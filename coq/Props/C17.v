(* C17 -- File reconstruction writes exactly the requested bytes at the right offsets.  Statements only.
   The model (Model/Reconstruct.v) starts from the decompressed chunks of the fetched ranges; index arithmetic that
   would panic or wrap in the code is an explicit error (None).  The facts about the source the functions were read
   from are regenerated on every run. *)
From Coq Require Import NArith Bool List Permutation.
Import ListNotations.
From XetModel Require Import Gen.ReconFacts Model.Cache Model.Reconstruct Proofs.CacheProofs Proofs.CacheHitProofs Proofs.ReconstructProofs.
From XetModel Require Import Model.Merkle Model.Shard Model.Dedup Proofs.EndToEndProofs Proofs.FetchTermProofs.
Open Scope N_scope.

(* fetch, trim to term: whatever wider range was fetched, the term's data is exactly the chunks [ts, te) *)
Theorem C17_trim_to_term_exact : forall (fetched : list bytes) fs ts te,
  fs <= ts -> ts <= te -> te - fs <= lenN fetched ->
  trim_term fetched fs ts te (lenN (concat (firstn (N.to_nat (te - ts)) (skipn (N.to_nat (ts - fs)) fetched))))
  = Some (concat (firstn (N.to_nat (te - ts)) (skipn (N.to_nat (ts - fs)) fetched))).
Proof. exact trim_term_exact. Qed.

(* the sequential writer: entered [off] bytes into the first term and asked for [total] bytes, it writes exactly that
   slice of the concatenated term data *)
Theorem C17_sequential_writer_exact : forall t r off total,
  off <= lenN t -> seq_write (t :: r) true off total = Some (takeN (dropN (concat (t :: r)) off) total).
Proof. exact seq_write_exact. Qed.
(* and the length it reports is the number of bytes written whenever the range lies inside the data *)
Theorem C17_sequential_length : forall t r off total out,
  off <= lenN t -> off + total <= lenN (concat (t :: r)) -> seq_write (t :: r) true off total = Some out -> lenN out = total.
Proof. exact seq_write_length. Qed.

(* the parallel writer's plan tiles the same slice: with the tasks finishing in plan order its file is the sequential
   writer's output *)
Theorem C17_parallel_eq_sequential : forall terms off total out n,
  par_write terms (map lenN terms) off total (seq 0 (length terms)) = Some (out, n) -> seq_write terms true off total = Some out.
Proof. exact par_write_in_order_eq_seq. Qed.

(* the order in which the tasks finish does not matter: for every permutation of the completion order the parallel
   writer produces the same file and reports the same length as in plan order (the regions of the plan are pairwise
   disjoint, and positioned writes into disjoint regions commute) *)
Theorem C17_completion_order_irrelevant : forall terms off total order,
  Permutation order (seq 0 (length terms)) ->
  par_write terms (map lenN terms) off total order = par_write terms (map lenN terms) off total (seq 0 (length terms)).
Proof. exact par_write_any_order. Qed.

Example C17_completion_order_example :
  seq_write ex_terms true 2 9 = Some [3; 4; 5; 6; 7; 8; 9; 10; 11] /\
  par_write ex_terms [5; 3; 4] 2 9 [2; 0; 1]%nat = Some ([3; 4; 5; 6; 7; 8; 9; 10; 11], 9).
Proof. destruct ex_reconstruct as (A & _ & B & _). split; assumption. Qed.

Example C17_source_shape_pinned : reconstruction_shape_pinned = true.
Proof. reflexivity. Qed.


(* coalesced fetch ranges: the chunk range [fs, fe) of a xorb downloaded once and trimmed to a term [ts, te) inside it is the term
   the writers need -- so a download through coalesced fetch ranges writes what C01_upload_then_download states for terms
   fetched one by one.  [content h] is the chunk data behind chunk hash h *)
Theorem C17_term_from_fetch_range : forall (content : Merkle.hash -> bytes) F s x fs fe, st_find F (sg_cas s) = Some x ->
  fs <= sg_start s -> sg_start s <= sg_end s -> sg_end s <= fe -> fe <= N.of_nat (length (ci_chunks x)) ->
  trim_term (fetched_range content x fs fe) fs (sg_start s) (sg_end s) (lenN (term_of content F s)) = Some (term_of content F s).
Proof. exact term_from_fetch_range. Qed.

(* get_one_term as a whole (inverted range: error; exact cache hit returned as it is; otherwise the first covering fetch-info
   entry is downloaded and trimmed): whichever covering entry the fetch information lists first, and whether the chunk cache
   answers (exactly: C12) or not, the term handed to the writer is the chunk range the segment names *)
Theorem C17_get_one_term_exact : forall (content : Merkle.hash -> bytes) F s x cached infos, st_find F (sg_cas s) = Some x ->
  sg_start s <= sg_end s ->
  (cached = None \/ cached = Some (term_of content F s)) ->
  (exists r, In r infos /\ fst r <= sg_start s /\ sg_end s <= snd r) ->
  (forall r, In r infos -> snd r <= N.of_nat (length (ci_chunks x))) ->
  get_one_term cached infos (fetched_range content x) (sg_start s) (sg_end s) (lenN (term_of content F s)) = Some (term_of content F s).
Proof. exact get_one_term_exact. Qed.

(* the error branches of get_one_term: an inverted term range is refused before anything is looked at, and without a cache hit a
   term that no fetch-info entry covers is an error -- no download is started and no bytes are made up *)
Theorem C17_inverted_term_refused : forall cached infos download ts te ul,
  te < ts -> get_one_term cached infos download ts te ul = None.
Proof. exact get_one_term_inverted_refused. Qed.
Theorem C17_uncovered_term_refused : forall infos download ts te ul,
  (forall r, In r infos -> ~ (fst r <= ts /\ te <= snd r)) ->
  get_one_term None infos download ts te ul = None.
Proof. exact get_one_term_uncovered_refused. Qed.

(* the length check, for every server response: a term that came out of a download has exactly the unpacked length the plan
   declared for it (otherwise get_one_term reports an error and nothing reaches the writer) *)
Theorem C17_downloaded_term_has_declared_length : forall infos download ts te ul d,
  get_one_term None infos download ts te ul = Some d -> lenN d = ul.
Proof. exact get_one_term_downloaded_has_declared_length. Qed.

Print Assumptions C17_trim_to_term_exact.
Print Assumptions C17_sequential_writer_exact.
Print Assumptions C17_parallel_eq_sequential.
Print Assumptions C17_completion_order_irrelevant.
Print Assumptions C17_term_from_fetch_range.
Print Assumptions C17_get_one_term_exact.
Print Assumptions C17_inverted_term_refused.
Print Assumptions C17_uncovered_term_refused.
Print Assumptions C17_downloaded_term_has_declared_length.
