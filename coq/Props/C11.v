(* C11 -- Data uploaded once is deduplicated by every later session.  Statements only.
   [aggregated_xorb_registers_cas] is regenerated from process_aggregated_data_as_xorb on every run. *)
From Coq Require Import NArith Bool List.
Import ListNotations.
From XetModel Require Import Base.Codec Gen.ShardLayout Gen.DedupFacts Model.Merkle Model.Shard Model.Dedup Proofs.PipelineProofs.
Open Scope N_scope.

(* invariant "every xorb handed to the upload path has its CAS info in the session shard", preserved by every session step *)
Theorem C11_mid_file_xorbs_recorded : forall s xs, recorded s -> recorded (register_mid_xorbs s xs).
Proof. exact register_mid_xorbs_recorded. Qed.
Theorem C11_completion_recorded : forall cf s file m, recorded s -> recorded (register_completion aggregated_xorb_registers_cas cf s file m).
Proof. exact register_completion_recorded. Qed.
Theorem C11_finalize_recorded : forall s, recorded s -> recorded (session_finalize aggregated_xorb_registers_cas s).
Proof. exact session_finalize_recorded. Qed.

(* the other shape of process_aggregated_data_as_xorb loses the xorb of every file smaller than one xorb *)
Theorem C11_aggregated_not_recorded_refuted :
  exists s, recorded session0 /\ s = session_finalize false (mkS (mkAgg [(ex_h 1, 10)] []) [] [] [] m0) /\ ~ recorded s.
Proof. exact aggregated_not_recorded_refuted. Qed.
(* "a later session finds every recorded chunk" is C05's completeness side; it is exercised end to end by stream sess
   (re-uploads must not transfer chunk bytes beyond what fragmentation prevention withheld) *)

Print Assumptions C11_completion_recorded.
Print Assumptions C11_finalize_recorded.
