(* C11 -- Data uploaded once is deduplicated by every later session.  Statements only.
   [aggregated_xorb_registers_cas] is regenerated from process_aggregated_data_as_xorb on every run. *)
From Coq Require Import NArith Bool List.
Import ListNotations.
From XetModel Require Import Base.Codec Gen.ShardLayout Gen.DedupFacts Model.Merkle Model.Shard Model.Dedup Proofs.PipelineProofs Proofs.ResolveProofs Proofs.ReuploadProofs.
From XetModel Require Import Gen.ManagerFacts Model.Manager Proofs.ShardSizeProofs Proofs.ShardDedupWholeProofs Proofs.ManagerProofs Proofs.ManagerWholeProofs Proofs.ReuploadManagerProofs.
Open Scope N_scope.

(* invariant "every xorb handed to the upload path has its CAS info in the session shard", preserved by every session step *)
Theorem C11_mid_file_xorbs_recorded : forall s xs, recorded s -> recorded (register_mid_xorbs s xs).
Proof. exact register_mid_xorbs_recorded. Qed.
Theorem C11_completion_recorded : forall cf s file m, recorded s -> recorded (register_completion aggregated_xorb_registers_cas cf s file m).
Proof. exact register_completion_recorded. Qed.
Theorem C11_finalize_recorded : forall s, recorded s -> recorded (session_finalize aggregated_xorb_registers_cas s).
Proof. exact session_finalize_recorded. Qed.

(* the other shape of process_aggregated_data_as_xorb loses the xorb of every file smaller than one xorb *)
Theorem C11_aggregated_not_recorded_refuted :
  exists s, recorded session0 /\ s = session_finalize false (mkS (mkAgg [(ex_h 1, 10)] []) [] [] [] m0) /\ ~ recorded s.
Proof. exact aggregated_not_recorded_refuted. Qed.

(* the whole session, any sequence of mid-file xorbs and completed files: every xorb handed to the upload path is in the
   session shard's CAS section *)
Theorem C11_session_recorded : forall cf ops, recorded (srun true cf ops).
Proof. exact srun_recorded. Qed.

(* ... so every chunk of every file the session completed is found in the table built from that shard (first session
   on an empty store; StoreOk/op_ok as for C01_session_records_resolve) *)
Theorem C11_session_shard_covers_its_files : forall U cf ops, let s := srun true cf ops in
  StoreOk (s_uploaded s) U -> Forall (op_ok (s_uploaded s) U) ops ->
  forall cap g c, In g (ghosts ops) -> In c (snd g) -> InTable (shard_table (s_shard_cas s) cap) (fst c).
Proof. exact first_session_shard_covers_its_files. Qed.

(* a file whose chunks are all known to the data interface is deduplicated completely, for every split into blocks, every
   table (any further shards, any run-length cap) -- as long as fragmentation prevention refuses no answer *)
Theorem C11_known_file_stores_nothing : forall bbd cf ext blocks salt sha, AllowAll cf ->
  (forall b c, In b blocks -> In c b -> InTable ext (fst c)) ->
  let f := feed_blocks bbd cf ext fd0 blocks in
  f_new f = [] /\ f_new_xorbs f = [] /\ f_registered f = []
  /\ m_new_bytes (f_metrics f) = 0 /\ m_new_chunks (f_metrics f) = 0
  /\ a_chunks (snd (fst (fst (fd_finalize f salt sha)))) = []
  /\ snd (fd_finalize f salt sha) = [].
Proof. exact reupload_file_stores_nothing. Qed.
Theorem C11_no_refusal_when_switched_off : forall cf, c_min_cpr_num cf = 0 -> AllowAll cf.
Proof. exact min_cpr_zero_allows. Qed.

(* the two composed: re-uploading a file a session completed, to a deduper that sees that session's shard *)
Theorem C11_reupload_after_session : forall U cf ops, let s := srun true cf ops in
  StoreOk (s_uploaded s) U -> Forall (op_ok (s_uploaded s) U) ops ->
  forall bbd cf2 more cap g blocks salt sha, AllowAll cf2 -> In g (ghosts ops) -> concat blocks = snd g ->
  let f := feed_blocks bbd cf2 (shard_table (s_shard_cas s) cap ++ more) fd0 blocks in
  f_new f = [] /\ f_new_xorbs f = [] /\ f_registered f = [] /\ m_new_bytes (f_metrics f) = 0 /\ m_new_chunks (f_metrics f) = 0
  /\ a_chunks (snd (fst (fst (fd_finalize f salt sha)))) = [] /\ snd (fd_finalize f salt sha) = [].
Proof. exact reupload_after_session. Qed.

(* a session made only of such files hands nothing to the upload path *)
Theorem C11_chunkless_session_uploads_nothing : forall rc cf ops, Forall chunkless ops -> s_uploaded (srun rc cf ops) = [].
Proof. exact chunkless_session_uploads_nothing. Qed.

(* the premises are met by a concrete session and its file fed again in another split *)
Theorem C11_reupload_example :
  (f_new rx_f = [] /\ f_new_xorbs rx_f = [] /\ f_registered rx_f = [] /\ m_new_bytes (f_metrics rx_f) = 0 /\ m_new_chunks (f_metrics rx_f) = 0
   /\ a_chunks (snd (fst (fst (fd_finalize rx_f (ex_h 0) None)))) = [] /\ snd (fd_finalize rx_f (ex_h 0) None) = [])
  /\ m_deduped_bytes (f_metrics rx_f) = 40 /\ length (f_info rx_f) = 2%nat.
Proof. exact rx_reupload. Qed.

(* [AllowAll] cannot be dropped: with fragmentation prevention on, a known chunk whose answer is refused is stored again
   (DefragPrevention's designed behaviour; the session oracle judges re-upload byte counts only when nothing was refused) *)
Theorem C11_refusal_stores_known_chunk_again :
  (forall c, In c [ex_c1; ex_c2; rx_c3] -> InTable rx_tbl (fst c))
  /\ f_new (feed_blocks false rx_cfg_on rx_tbl fd0 [[ex_c1; ex_c2; rx_c3]]) = [rx_c3]
  /\ m_new_bytes (f_metrics (feed_blocks false rx_cfg_on rx_tbl fd0 [[ex_c1; ex_c2; rx_c3]])) = 30
  /\ m_defrag_chunks (f_metrics (feed_blocks false rx_cfg_on rx_tbl fd0 [[ex_c1; ex_c2; rx_c3]])) = 1.
Proof. exact refusal_stores_known_chunk_again. Qed.

(* ---- the shard manager (ShardFileManager): the index of registered shard files, the in-memory shard, flushes ----
   [register] is the model of register_shards at the regenerated fact index_counts_inserted_entries. *)

(* total_indexed_chunks, the counter compared with the cap, is the number of entries the tables hold: after any sequence of
   registrations, for every cap *)
Theorem C11_index_counter_exact : forall cap ops, let b := fold_left (register cap) ops book0 in b_total b = total_size (b_colls b).
Proof. exact total_indexed_exact. Qed.
(* with the other shape of the counter (advanced by each shard's whole table) shards that share chunks exhaust the cap while
   the tables are nearly empty, and a later shard's chunks are no longer found *)
Theorem C11_counter_by_table_size_refuted :
  let ops := [mkRS (repeat 1 32%nat) zero_hash [dx_c1]; mkRS (repeat 2 32%nat) zero_hash [dx_c1]; mkRS (repeat 3 32%nat) zero_hash [dx_c2]] in
  let b := fold_left (register_with false 3) ops book0 in
  b_total b <> total_size (b_colls b) /\ total_size (b_colls b) < 3 /\ mgr_query b [repeat 14 32%nat] = Found None
  /\ exists a, mgr_query (fold_left (register_with true 3) ops book0) [repeat 14 32%nat] = Found (Some a).
Proof. exact counter_by_table_size_refuted. Qed.

(* below the cap, a chunk recorded in a registered shard file is found, whichever collections are asked first, when its
   first 64 bits are unambiguous within its collection (the table keeps one entry per truncated hash) *)
Theorem C11_registered_chunk_found : forall cap ops, N.of_nat (length ops) <= 65536 ->
  let b := fold_left (register cap) ops book0 in b_total b < cap ->
  forall c s blk j ch q0 qr, In c (b_colls b) -> In s (k_shards c) -> In blk (sh_cass s) -> nth_error (ci_chunks blk) j = Some ch -> N.of_nat j <= 65535 ->
    ce_hash ch = keyed (k_key c) q0 -> NoTruncClash c ->
    exists n sg, mgr_query b (q0 :: qr) = Found (Some (n, sg)).
Proof. exact registered_chunk_found. Qed.
(* once the cap is reached later shards are registered without their chunks ("beyond those, we simply drop the search"): the
   premise b_total b < cap cannot be dropped *)
Theorem C11_cap_reached_drops_search : mgr_query (fold_left (register 2) [mx_s1; mx_s2] book0) mx_q = Found None
  /\ b_total (fold_left (register 2) [mx_s1; mx_s2] book0) = 2.
Proof. exact mx_capped. Qed.

(* the whole manager, any sequence of add_cas_block / add_file_reconstruction_info / flush (explicit or by the size target) /
   register_shards: below the cap every chunk of every block ever added is found afterwards, from memory or from the flushed
   file.  blocks_ok: hashes are 32 bytes, two added blocks with one xorb hash are the same block; shards_ok: registered files
   carry 32-byte identities (a flushed file gets a fresh one) *)
Theorem C11_added_chunk_found_across_flushes : forall ra cap target ops, shards_ok ops -> N.of_nat (length ops) <= 65536 -> blocks_ok ops ->
  let g := mgr_run ra cap target ops in b_total (g_book g) < cap ->
  (forall c, In c (b_colls (g_book g)) -> k_key c = zero_hash -> NoTruncClash c) ->
  forall blk j ch qr, In (MAddCas blk) ops -> nth_error (ci_chunks blk) j = Some ch -> N.of_nat j <= 65535 ->
  exists n sg, mgr_dedup g (ce_hash ch :: qr) = Found (Some (n, sg)) /\ 1 <= n.
Proof. exact added_chunk_found. Qed.
Theorem C11_manager_example :
  (exists n sg, mgr_dedup (mgr_run true 100 1000000 wx_ops) [repeat 12 32%nat; repeat 99 32%nat] = Found (Some (n, sg)) /\ 1 <= n)
  /\ (exists n sg, mgr_dedup (mgr_run true 100 1000000 wx_ops) [repeat 14 32%nat] = Found (Some (n, sg)) /\ 1 <= n)
  /\ length (b_known (g_book (mgr_run true 100 1000000 wx_ops))) = 1%nat.
Proof. exact wx_found. Qed.


(* the deduper and the manager put together: with the manager's chunk_hash_dedup_query as the data interface (errors read as "no
   answer"), a file whose chunks are all recorded in blocks the manager was given -- flushed to a shard file or still in memory --
   stores nothing, cuts nothing and counts no new byte; below the cap, fragmentation prevention refusing nothing *)
Theorem C11_known_file_through_the_manager_stores_nothing : forall ra cap target ops, shards_ok ops -> N.of_nat (length ops) <= 65536 -> blocks_ok ops ->
  b_total (g_book (mgr_run ra cap target ops)) < cap ->
  (forall c, In c (b_colls (g_book (mgr_run ra cap target ops))) -> k_key c = zero_hash -> NoTruncClash c) ->
  forall bbd cf (chunks : list chunk), AllowAll cf -> (forall c, In c chunks -> KnownToManager ops (fst c)) ->
  let f := process_chunks bbd cf fd0 chunks (pass1 (length chunks) (mgr_ask (mgr_run ra cap target ops)) (map fst chunks)) in
  f_new f = [] /\ f_new_xorbs f = [] /\ f_registered f = [] /\ m_new_bytes (f_metrics f) = 0 /\ m_new_chunks (f_metrics f) = 0.
Proof. exact known_file_through_manager_stores_nothing. Qed.
Theorem C11_through_the_manager_example :
  let chunks : list chunk := [(repeat 12 32%nat, 20); (repeat 14 32%nat, 40)] in
  (forall c, In c chunks -> KnownToManager wx_ops (fst c)) /\
  let f := process_chunks false rx_cfg fd0 chunks (pass1 (length chunks) (mgr_ask (mgr_run true 100 1000000 wx_ops)) (map fst chunks)) in
  f_new f = [] /\ m_new_bytes (f_metrics f) = 0 /\ m_deduped_bytes (f_metrics f) = 60 /\ length (f_info f) = 2%nat.
Proof. exact reupload_manager_example. Qed.

Print Assumptions C11_completion_recorded.
Print Assumptions C11_finalize_recorded.
Print Assumptions C11_session_recorded.
Print Assumptions C11_session_shard_covers_its_files.
Print Assumptions C11_known_file_stores_nothing.
Print Assumptions C11_reupload_after_session.
Print Assumptions C11_chunkless_session_uploads_nothing.
Print Assumptions C11_reupload_example.
Print Assumptions C11_refusal_stores_known_chunk_again.
Print Assumptions C11_index_counter_exact.
Print Assumptions C11_registered_chunk_found.
Print Assumptions C11_added_chunk_found_across_flushes.
Print Assumptions C11_manager_example.
Print Assumptions C11_counter_by_table_size_refuted.
Print Assumptions C11_known_file_through_the_manager_stores_nothing.
