(* C19 -- Interrupted writes never leave a partial file under a final name.  Statements only.
   An operation is a plan of file writes (create a temporary name, append in any chunking, rename to the final name)
   and unlinks; a crash is any prefix of its effects (completed system calls persist).  [final] is the name pattern the
   readers look at, [good p c] says that content c is complete and consistent with name p, [recs c r] that file c
   makes record r retrievable.  The effect lists are tied to the code by comparing them with the system calls the real
   operations make (strace), and the crash states by killing the real process at every file-system call. *)
From Coq Require Import NArith Bool List.
Import ListNotations.
From XetModel Require Import Base.Codec Gen.CrashFacts Model.Merkle Model.Shard Model.Crash Proofs.CrashProofs Proofs.CrashHistoryProofs.
From XetModel Require Import Proofs.CodecProofs Proofs.ShardWholeProofs Proofs.ShardDedupWholeProofs Proofs.MergeProofs Proofs.MergeAllProofs.
From XetModel Require Import Proofs.UnionWfProofs Proofs.ConsolidateWholeProofs Proofs.ShardNameProofs Proofs.ConsolidateSerializedProofs.
Open Scope N_scope.

(* after any prefix of the effects of a safe plan, every file under a final name is complete and consistent with its
   name, and every record retrievable before is still retrievable *)
Theorem C19_crash_at_any_point : forall (R : Type) final (good : fname -> list N -> Prop) (recs : list N -> R -> Prop) pl f n,
  Consistent final good f -> SafePlan R final good recs f pl ->
  Consistent final good (apply_effs f (firstn n (plan_effs pl))) /\ Keeps R final recs f (apply_effs f (firstn n (plan_effs pl))).
Proof. exact safe_plan_crash. Qed.

(* temp-then-rename: one file write (shard flush, shard copy/export, local xorb put, cache item insert) is a safe plan
   whenever its temporary name is not a final name and its whole content is consistent with the final name *)
Theorem C19_single_write_is_safe : forall (R : Type) final (good : fname -> list N -> Prop) (recs : list N -> R -> Prop) f t dest chunks,
  final t = false -> good dest (concat chunks) ->
  (forall c0, flookup f dest = Some c0 -> forall x, recs c0 x -> recs (concat chunks) x) ->
  SafePlan R final good recs f [PWrite t dest chunks].
Proof. exact @single_write_safe. Qed.

(* write-before-delete: one consolidation group (the merged shard is written under its final name, then the inputs are
   unlinked except those named like the merged shard) is a safe plan when the merged shard holds the inputs' records *)
Theorem C19_group_write_before_delete : forall (R : Type) final (good : fname -> list N -> Prop) (recs : list N -> R -> Prop) f t mname m dels,
  final t = false -> final mname = true -> good mname m ->
  (forall c0, flookup f mname = Some c0 -> forall x, recs c0 x -> recs m x) ->
  (forall d, In d dels -> d <> mname /\ d <> t /\ forall c, flookup f d = Some c -> forall x, recs c x -> recs m x) ->
  SafePlan R final good recs f (PWrite t mname [m] :: map PUnlink dels).
Proof. exact group_plan_safe. Qed.
Theorem C19_plans_compose : forall (R : Type) final (good : fname -> list N -> Prop) (recs : list N -> R -> Prop) a f b,
  SafePlan R final good recs f a -> SafePlan R final good recs (apply_effs f (plan_effs a)) b -> SafePlan R final good recs f (a ++ b).
Proof. exact SafePlan_app. Qed.

(* the plan computed by consolidate_shards_in_directory has that structure: every merged shard is named by the hash of
   its content and no unlink of its group removes that name *)
Theorem C19_consolidation_plan_structure : forall fuel target shards temps finished pl fin,
  consolidate fuel target shards temps finished = Some (pl, fin) -> GroupsOk pl None.
Proof. exact consolidate_groups. Qed.

(* leftovers are not final names: the shard scans never look at a temporary shard file *)
Theorem C19_temp_shard_name_not_final : forall u, is_shard_final (temp_shard_name u) = false.
Proof. exact temp_shard_name_not_final. Qed.

(* the statements the effect lists were written against are still in the source (regenerated on every run) *)
Example C19_write_protocols_pinned : write_protocols_pinned = true.
Proof. reflexivity. Qed.

(* non-vacuity: a directory with two shards A and B, the plan "write M, unlink A, unlink B", crashed after the write and
   the first unlink: M and B are there, A is gone, the temp file is gone *)
Example C19_nonvacuous :
  let f := [([65], [1]); ([66], [2])] in
  let pl := [PWrite [46; 116] [77] [[1; 2]]; PUnlink [65]; PUnlink [66]] in
  apply_effs f (firstn 4 (plan_effs pl)) = [([77], [1; 2]); ([66], [2])].
Proof. vm_compute. reflexivity. Qed.


(* "after any prior history": a history is a sequence of operations, each with the number of its file-system effects that
   happened before the process stopped (all of them when it completed).  When every operation's plan is safe for the state it
   starts in -- the state an interrupted earlier operation left behind included, e.g. a consolidation run again after a crash --
   the directory is consistent after the whole history and everything retrievable at its start still is *)
Theorem C19_any_history_of_interrupted_operations : forall (R : Type) final (good : fname -> list N -> Prop) (recs : list N -> R -> Prop) h f,
  Consistent final good f -> SafeHistory R final good recs f h ->
  Consistent final good (run_history f h) /\ Keeps R final recs f (run_history f h).
Proof. exact history_safe. Qed.
(* a consolidation interrupted after its first unlink, run again and interrupted before the rename, run a third time to its end *)
Example C19_history_nonvacuous :
  SafeHistory N hx_final hx_good hx_recs hx_f0 hx_hist /\ run_history hx_f0 hx_hist = [([77], [1; 2]); ([46; 117], [1; 2])].
Proof. exact history_example. Qed.


(* write-before-delete with its premise discharged (C10_merge_covers_inputs): consolidating two serialized shards of a
   directory is a safe plan for retrievability by file and xorb key as the crate's own readers see it -- the merged shard is
   written under the name of its content hash, then the inputs are unlinked; no other file of that name with another content *)
Theorem C19_consolidating_two_shards_is_safe : forall (final : fname -> bool) f t na nb fa ca ta ka cra exa fb cb tb kb crb exb m,
  let A := w_bs fa ca ta ka cra exa in let B := w_bs fb cb tb kb crb exb in
  ShardOk fa ca ta ka cra exa -> ShardOk fb cb tb kb crb exb ->
  ShardOk (union_files (length fa + length fb) fa fb) (union_cas (length ca + length cb) ca cb) (d_ctbl (union_cas (length ca + length cb) ca cb)) zero_hash 0 u64max ->
  merge_bytes A B = Some m ->
  flookup f na = Some A -> flookup f nb = Some B ->
  final t = false -> final (shard_name m) = true -> na <> shard_name m -> nb <> shard_name m -> na <> t -> nb <> t ->
  (forall c0, flookup f (shard_name m) = Some c0 -> c0 = m) ->
  SafePlan skey final (fun p c => p = shard_name c) shard_recs f (PWrite t (shard_name m) [m] :: map PUnlink [na; nb]).
Proof. exact consolidate_pair_safe. Qed.


(* ... and for a whole group of any size: the group's first shard and the shards merged into it are files of the directory, the
   merged shard is written under the name of its content hash, then any of the group's names other than that name are unlinked *)
Theorem C19_consolidating_a_group_is_safe : forall (final : fname -> bool) f t n0 acc (g : list (fname * sshard)) m dels,
  ss_ok acc -> Forall (fun x => ss_ok (snd x)) g -> UnionsOk acc (map snd g) -> ss_ok (ss_unions acc (map snd g)) ->
  merge_all (ss_bytes acc) (map (fun x => (fst x, ss_bytes (snd x))) g) = Some m ->
  flookup f n0 = Some (ss_bytes acc) -> (forall n s, In (n, s) g -> flookup f n = Some (ss_bytes s)) ->
  (forall d, In d dels -> (d = n0 \/ exists s, In (d, s) g) /\ d <> shard_name m /\ d <> t) ->
  final t = false -> final (shard_name m) = true -> (forall c0, flookup f (shard_name m) = Some c0 -> c0 = m) ->
  SafePlan skey final (fun p c => p = shard_name c) shard_recs f (PWrite t (shard_name m) [m] :: map PUnlink dels).
Proof. exact consolidate_group_safe. Qed.


(* chaining groups (with C19_plans_compose): after a group's plan the merged shard stands under its name, and every other file
   of the directory that is neither the temporary file nor one of the unlinked inputs is untouched -- so the shards of the
   later groups are still where the next group's premises expect them *)
Theorem C19_group_plan_frame : forall (final : fname -> bool) f t mname m dels, final t = false ->
  let f' := apply_effs f (plan_effs (PWrite t mname [m] :: map PUnlink dels)) in
  (~ In mname dels -> flookup f' mname = Some m) /\
  (forall q, q <> t -> q <> mname -> ~ In q dels -> flookup f' q = flookup f q).
Proof. exact group_plan_frame. Qed.

(* the plan of a whole directory, as one statement.  The listed shards lie under pairwise different final names; the directory is
   consistent and a name has one good content (names are content hashes); for every group the grouping loop forms (groups_of
   mirrors it) the merged shard is good for its name, finally named, and holds every member's records (for serialized shards:
   C10_merge_all_covers_inputs, with C10_group_unions_are_wellformed for its premise); temporary names are not final.  Then
   the whole plan -- each group's write and unlinks, group after group -- is safe: with C19_crash_at_any_point, a stop after
   any number of its effects leaves the directory consistent and everything retrievable before still retrievable *)
Theorem C19_whole_consolidation_plan_is_safe : forall (R : Type) (final : fname -> bool) (good : fname -> list N -> Prop) (recs : list N -> R -> Prop),
  (forall p c c', good p c -> good p c' -> c = c') ->
  forall fuel target shards temps finished pl fin f,
  consolidate fuel target shards temps finished = Some (pl, fin) -> MergedOk R final good recs (groups_of fuel target shards) ->
  Consistent final good f -> InDir final f shards -> NoDup (map fst shards) -> (forall t, In t temps -> final t = false) ->
  SafePlan R final good recs f pl.
Proof. exact consolidate_plan_safe. Qed.
(* ... instantiated with the real readers: a directory of serialized shards whose groups merge without meeting a K2 pair and
   within the size bounds (SerializedGroups: every group is made of serializations of well-formed shards with StepsFit), names
   being content hashes without collisions.  The merged shard's name needs no premise: every shard name matches the pattern
   the readers look for (C19_shard_name_is_final) *)
Theorem C19_shard_name_is_final : forall c, is_shard_final (shard_name c) = true.
Proof. exact shard_name_is_final. Qed.
Theorem C19_consolidating_a_directory_of_serialized_shards_is_safe : forall fuel target shards temps finished pl fin f,
  (forall c c', shard_name c = shard_name c' -> c = c') ->
  consolidate fuel target shards temps finished = Some (pl, fin) -> SerializedGroups (groups_of fuel target shards) ->
  Consistent is_shard_final (fun p c => p = shard_name c) f -> InDir is_shard_final f shards -> NoDup (map fst shards) ->
  (forall t, In t temps -> is_shard_final t = false) ->
  SafePlan skey is_shard_final (fun p c => p = shard_name c) shard_recs f pl.
Proof. exact consolidate_serialized_directory_safe. Qed.
Example C19_whole_plan_example :
  exists m pl fin, consolidate 3 1073741824 cw_dir [cw_t] [] = Some (pl, fin) /\
    pl = [PWrite cw_t (shard_name m) [m]; PUnlink (shard_name cw_A); PUnlink (shard_name cw_B)] /\
    MergedOk skey is_shard_final (fun p c => p = shard_name c) shard_recs (groups_of 3 1073741824 cw_dir) /\
    NoDup (map fst cw_dir) /\ is_shard_final cw_t = false.
Proof. exact whole_plan_example. Qed.

Print Assumptions C19_crash_at_any_point.
Print Assumptions C19_group_write_before_delete.
Print Assumptions C19_consolidation_plan_structure.
Print Assumptions C19_any_history_of_interrupted_operations.
Print Assumptions C19_consolidating_two_shards_is_safe.
Print Assumptions C19_consolidating_a_group_is_safe.
Print Assumptions C19_whole_consolidation_plan_is_safe.
Print Assumptions C19_consolidating_a_directory_of_serialized_shards_is_safe.
Print Assumptions C19_shard_name_is_final.
