(* C01 -- Upload then download returns every file byte-for-byte.  Statements only.
   The central invariant is proved in Proofs/ResolveProofs.v: at every point of FileDeduper::process_chunks the file's
   segment list resolves -- against the store F plus the file's pending data under the zero hash -- to exactly the chunks
   fed so far; it survives xorb cuts, local and global dedup answers, fragmentation-prevention rejections, the aggregator's
   merge with shifted indices, the swap branch of register_single_file_clean_completion and the final patching of
   self-references.  [resolve_file F segs] is the model of LocalClient::get_file at the level of chunk identities; the step
   from chunk identities to bytes is the xorb round trip (C07) and the term slicing (C17).
   Assumed, explicitly (StoreOk): no two xorbs of the store share a hash with different contents, no non-empty xorb hashes
   to all zeroes, the 64-bit lookup keys of distinct chunks differ, chunks are non-empty; and the data interface answers
   only with xorbs of the store (TableOk).  The model keys the deduper's local lookup by the first 8 bytes of the chunk hash
   where the code keys its HashMap by the whole hash; under the key hypothesis of StoreOk the two agree (the generated
   chunk identities of streams dd and sess have distinct first 8 bytes).  The end-to-end checks of streams sess and dd
   exercise the same facts on the real crates. *)
From Coq Require Import NArith Bool List.
Import ListNotations.
From Coq Require Import Permutation.
From XetModel Require Import Model.Cache Model.Chunker Model.Reconstruct Model.Xorb Proofs.ChunkerLaws Proofs.XorbProofs Proofs.XorbWholeProofs Proofs.EndToEndProofs.
From XetModel Require Import Base.Codec Gen.ShardLayout Gen.DedupFacts Gen.XorbLayout Model.Merkle Model.Shard Model.Dedup Proofs.PipelineProofs Proofs.ResolveProofs.
Open Scope N_scope.

(* the deduper records exactly the fed chunks (so the file hash and the verification data describe the fed stream) *)
Theorem C01_fed_chunks_recorded_partial : forall bbd cf f chunks answers,
  rev (f_hashes (process_chunks bbd cf f chunks answers)) = rev (f_hashes f) ++ chunks.
Proof. exact fed_chunks_recorded. Qed.
(* limits are respected, so every xorb cut on the way can be serialised and read back (C15 + C07) *)
Theorem C01_xorbs_within_limits_partial : forall bbd cf f chunks answers, cfg_ok cf -> Forall (chunk_fits cf) chunks -> fd_ok cf f ->
  fd_ok cf (process_chunks bbd cf f chunks answers).
Proof. exact process_chunks_limits. Qed.


(* a file fed in any number of process_chunks calls: its segment list resolves to exactly the chunks fed (and records which
   segments still point into the pending data, with every lookup entry pointing at the chunk it names) *)
Theorem C01_file_record_resolves : forall F U, StoreOk F U -> forall bbd cf ext R blocks,
  TableOk F ext -> (forall b c, In b blocks -> In c b -> In c U) ->
  (forall x, In x (f_registered (feed_blocks bbd cf ext (fd_with_registered R) blocks)) -> In x F) ->
  FInv F U (feed_blocks bbd cf ext (fd_with_registered R) blocks) (concat blocks).
Proof. exact file_resolves. Qed.
Theorem C01_invariant_gives_resolution : forall F U f fed, FInv F U f fed -> resolve_file (pend (f_new f) :: F) (f_info f) = Some fed.
Proof. intros F U f fed H. exact (fi_res F U f fed H). Qed.
(* FileDeduper::finalize hands the session a well-formed completion *)
Theorem C01_finalize_hands_over : forall F U, StoreOk F U -> forall f fed salt sha,
  FInv F U f fed -> op_ok F U (OpFile (snd (fst (fst (fd_finalize f salt sha)))) (snd (fst (fd_finalize f salt sha))) (fst (fst (fst (fd_finalize f salt sha))), fed)).
Proof. exact file_op_ok. Qed.
(* a whole session -- completions and mid-file xorb registrations in any order, then finalize: every completed file has a
   record in the session shard that resolves in the store to exactly its chunks, every record in the shard is one of those,
   and nothing stays behind in the aggregator *)
Theorem C01_session_records_resolve : forall F U, StoreOk F U -> forall rc cf ops, Forall (op_ok F U) ops ->
  (forall x, In x (s_uploaded (srun rc cf ops)) -> In x F) ->
  (forall g, In g (ghosts ops) -> DoneRec F (s_shard_files (srun rc cf ops)) g)
  /\ DoneAll F (s_shard_files (srun rc cf ops)) (ghosts ops)
  /\ a_files (s_cur (srun rc cf ops)) = [].
Proof. exact session_resolves. Qed.
(* the premises hold on a run with internal deduplication (two segments, the second a self-reference) *)
Example C01_premises_satisfiable :
  StoreOk ex_F ex_U /\
  DoneRec ex_F (s_shard_files (srun true ex_cfg2 ex_ops)) (fst (fst (fst ex_fin)), [ex_c1; ex_c2; ex_c1]) /\ length (f_info ex_file) = 2%nat.
Proof. exact (conj ex_StoreOk ex_session_resolves). Qed.


(* ---- composed: the bytes written by a download are the bytes that were cleaned ----
   C04 (the chunks of a file concatenate to it, for every split into calls), the resolution theorem above, C07 (a chunk
   range of a serialized xorb reads back as the concatenation of its chunks) and C17 (the writers write exactly the
   requested slice of the concatenated terms) put together.  [content h] is the chunk data the store returns for chunk
   hash h, [hashf] the chunk hash function; the one assumption about them is that the store returns, for the hash of each
   of the file's chunks, that chunk (no two different chunks of the store under one hash).  [term_of content F s] is the
   chunk range [start, end) of the xorb that segment s names. *)
Theorem C01_upload_then_download : forall (content : hash -> bytes) (hashf : bytes -> hash) F U rc cf ops target c calls chs fh,
  chunker_new target = Some c -> api_ok calls = true -> run_calls c st0 calls = Some chs ->
  StoreOk F U -> Forall (op_ok F U) ops -> (forall x, In x (s_uploaded (srun rc cf ops)) -> In x F) ->
  In (fh, ids_of hashf chs) (ghosts ops) ->
  (forall ch, In ch chs -> content (hashf ch) = ch) ->
  let data := concat (map fst calls) in
  exists fi, In fi (s_shard_files (srun rc cf ops)) /\ fi_hash fi = fh /\
    let terms := map (term_of content F) (fi_segs fi) in
    seq_write terms true 0 (lenN data) = Some data /\
    forall order out n, Permutation order (seq 0 (length terms)) -> par_write terms (map lenN terms) 0 (lenN data) order = Some (out, n) -> out = data.
Proof. exact upload_then_download. Qed.
(* the record-level step alone: any record that resolves to the identities of a file's chunks downloads to the file's bytes *)
Theorem C01_record_downloads_to_bytes : forall (content : hash -> bytes) (hashf : bytes -> hash) F segs chs,
  (forall ch, In ch chs -> content (hashf ch) = ch) ->
  resolve_file F segs = Some (ids_of hashf chs) ->
  let terms := map (term_of content F) segs in let data := concat chs in
  seq_write terms true 0 (lenN data) = Some data /\
  forall order out n, Permutation order (seq 0 (length terms)) -> par_write terms (map lenN terms) 0 (lenN data) order = Some (out, n) -> out = data.
Proof. exact record_downloads_to_bytes. Qed.
(* and the term is what the range read of the serialized xorb returns, for every compression scheme, when the xorb was
   serialized from the chunk data that [content] returns for its recorded chunk hashes *)
Theorem C01_term_is_xorb_range_read : forall (content : hash -> bytes) lz4c lz4d choose F s x xs hashes scheme,
  (forall y, lz4d (lz4c y) = Some y) -> (forall y, choose y <= MAX_SCHEME) ->
  st_find F (sg_cas s) = Some x -> map (fun e => content (ce_hash e)) (ci_chunks x) = xs ->
  xorb_input_ok (ci_hash x) xs hashes -> fold_right N.add 0 (phys_lens lz4c choose xs scheme) < 4294967296 ->
  bytes_eqb (ci_hash x) zero_hash = false -> scheme_valid scheme -> sg_start s < sg_end s -> sg_end s <= N.of_nat (length xs) ->
  get_bytes_by_chunk_range lz4d (built_info lz4c choose (ci_hash x) xs hashes scheme) (xorb_serialize lz4c choose (ci_hash x) xs hashes scheme) (sg_start s) (sg_end s)
  = ROk (term_of content F s).
Proof. exact term_is_xorb_range_read. Qed.
(* the premises are met by the session above with chunk bytes behind the identities; the download computes to the file *)
Example C01_end_to_end_example :
  exists fi, In fi (s_shard_files (srun true ex_cfg2 ex_ops)) /\ length (fi_segs fi) = 2%nat /\
    (forall ch, In ch e2e_chs -> e2e_content (e2e_hashf ch) = ch) /\
    resolve_file ex_F (fi_segs fi) = Some (ids_of e2e_hashf e2e_chs) /\
    seq_write (map (term_of e2e_content ex_F) (fi_segs fi)) true 0 40 = Some (concat e2e_chs).
Proof. exact e2e_example. Qed.

Print Assumptions C01_fed_chunks_recorded_partial.
Print Assumptions C01_file_record_resolves.
Print Assumptions C01_invariant_gives_resolution.
Print Assumptions C01_finalize_hands_over.
Print Assumptions C01_session_records_resolve.
Print Assumptions C01_premises_satisfiable.
Print Assumptions C01_upload_then_download.
Print Assumptions C01_record_downloads_to_bytes.
Print Assumptions C01_term_is_xorb_range_read.
Print Assumptions C01_end_to_end_example.
