(* C01 -- Upload then download returns every file byte-for-byte.  Statements only.
   PARTIAL in this revision: the theorems below are the parts of the round-trip argument that are proved; the central
   invariant ("the file record resolves, against store + pending data, to exactly the fed chunk sequence, across cuts,
   merges with shifted indices and the swap branch") is stated in DESIGN.md and exercised by both correspondence layers
   (stream dd: exact; stream sess: end to end with downloads of whole files and ranges), but not yet proved in Coq. *)
From Coq Require Import NArith Bool List.
Import ListNotations.
From XetModel Require Import Base.Codec Gen.ShardLayout Gen.DedupFacts Model.Merkle Model.Shard Model.Dedup Proofs.PipelineProofs.
Open Scope N_scope.

(* the deduper records exactly the fed chunks (so the file hash and the verification data describe the fed stream) *)
Theorem C01_fed_chunks_recorded_partial : forall bbd cf f chunks answers,
  rev (f_hashes (process_chunks bbd cf f chunks answers)) = rev (f_hashes f) ++ chunks.
Proof. exact fed_chunks_recorded. Qed.
(* limits are respected, so every xorb cut on the way can be serialised and read back (C15 + C07) *)
Theorem C01_xorbs_within_limits_partial : forall bbd cf f chunks answers, cfg_ok cf -> Forall (chunk_fits cf) chunks -> fd_ok cf f ->
  fd_ok cf (process_chunks bbd cf f chunks answers).
Proof. exact process_chunks_limits. Qed.

Print Assumptions C01_fed_chunks_recorded_partial.
