(* C20 -- Singleflight runs one task per key and every caller gets its outcome.  Statements only.
   The model (Model/Singleflight.v) has any number of callers and keys; its events are the atomic actions of
   Group::work (the map-lock sections, the read-lock section of get_future, the write-lock section of complete, the start,
   end and exit of the owner task, the creator's join); the environment chooses the interleaving, the arrival times and
   the outcome of every task (value, error, panic).  [Inv] holds initially and is kept by every event. *)
From Coq Require Import List NArith Bool Arith.
Import ListNotations.
From XetModel Require Import Gen.SfFacts Model.Singleflight Proofs.SingleflightProofs Proofs.SingleflightTermProofs.
Open Scope N_scope.

Theorem C20_invariant_initially : Inv sf_init.
Proof. exact Inv_init. Qed.
Theorem C20_invariant_every_schedule : forall es s s', Inv s -> sf_run s es = Some s' -> Inv s'.
Proof. exact sf_run_inv. Qed.

(* every caller that has returned got the outcome of the one task of its flight: the stored value or error for waiters
   and owner alike, a join error for the owner and "owner panicked" for the waiters of a task that panicked; never
   "no result", never "call missing" *)
Theorem C20_same_outcome : forall s c cid r owner, Inv s -> sf_callers s c = CReturned cid r owner ->
  exists o, c_res (sf_calls s cid) = Some (store_of o) /\
            (c_task (sf_calls s cid) = TCompleted o \/ c_task (sf_calls s cid) = TExited o) /\
            r = (if owner then creator_res o else cres_of (store_of o)).
Proof. exact returned_same_outcome. Qed.
Theorem C20_no_internal_error : forall s c cid r owner, Inv s -> sf_callers s c = CReturned cid r owner -> r <> RNoResult /\ r <> RCallMissing.
Proof. exact returned_never_internal_bug. Qed.

(* exactly one task per flight: only the creator's task is ever spawned, the caller that reports owner=true is that
   creator, there is one of them per call, and a started task is never started again *)
Theorem C20_owner_is_the_creator : forall s c cid r, Inv s -> sf_callers s c = CReturned cid r true ->
  c_creator (sf_calls s cid) = c /\ sf_map s (c_key (sf_calls s cid)) <> Some cid.
Proof. exact owner_is_creator. Qed.
Theorem C20_one_owner_per_flight : forall s c1 c2 cid r1 r2, Inv s ->
  sf_callers s c1 = CReturned cid r1 true -> sf_callers s c2 = CReturned cid r2 true -> c1 = c2.
Proof. exact one_owner_per_flight. Qed.
Theorem C20_task_starts_once : forall es s s' cid, Inv s -> (2 <= trank (c_task (sf_calls s cid)))%nat ->
  sf_run s es = Some s' -> sf_step s' (ETaskStart cid) = None.
Proof. exact task_starts_once. Qed.

(* no lost wake-up, and no caller waits forever: an un-notified waiter's call has no result yet; and a caller that has
   arrived and not returned can always be moved on by an internal step unless its call's task is running (waiting for the
   environment to finish it) *)
Theorem C20_no_lost_wakeup : forall s c k cid created, Inv s -> sf_callers s c = CWait k cid created false -> c_res (sf_calls s cid) = None.
Proof. exact no_lost_wakeup. Qed.
Theorem C20_progress : forall s c, Inv s ->
  match sf_callers s c with
  | CIdle | CReturned _ _ _ => True
  | CArrive _ | CGotCall _ _ _ | CSpawn _ _ _ | CRemove _ _ _ => sf_step s (EStep c) <> None
  | CWait _ cid _ _ => (exists e, internal e /\ sf_step s e <> None) \/ c_task (sf_calls s cid) = TRunning
  end.
Proof. exact progress. Qed.

(* liveness.  Every event -- a caller's step, a task's step, an arrival, the environment finishing a task -- decreases a
   measure (what the callers 0..n-1 and the created calls still have to do), so every schedule of n callers is at most 14 n
   events long: no caller can be kept spinning.  And a state in which nothing but an arrival is enabled has served every
   caller that arrived.  Hence every maximal schedule is finite and ends with every caller holding the outcome of the one
   task of its flight.  Outside the model: that the runtime eventually takes an enabled step, and that the supplied task
   finishes. *)
Theorem C20_every_event_decreases_the_measure : forall n s e s', Inv s -> ev_in n e -> sf_step s e = Some s' -> (measure n s' < measure n s)%nat.
Proof. exact step_decreases. Qed.
Theorem C20_schedules_are_bounded : forall n es s', Forall (ev_in n) es -> sf_run sf_init es = Some s' -> (length es <= 14 * n)%nat.
Proof. exact schedule_from_init_bounded. Qed.
Theorem C20_quiescent_means_everyone_served : forall s, Inv s -> quiescent s ->
  forall c, sf_callers s c = CIdle \/ exists cid r owner, sf_callers s c = CReturned cid r owner.
Proof. exact quiescent_all_served. Qed.
Theorem C20_maximal_schedule_serves_everyone : forall n es s, Forall (ev_in n) es -> sf_run sf_init es = Some s -> quiescent s ->
  (length es <= 14 * n)%nat /\
  forall c, sf_callers s c = CIdle \/
    exists cid r owner o, sf_callers s c = CReturned cid r owner /\ c_res (sf_calls s cid) = Some (store_of o) /\
      r = (if owner then creator_res o else cres_of (store_of o)).
Proof. exact maximal_schedule_serves_everyone. Qed.
Example C20_example_history_is_maximal : exists s, sf_run sf_init ex_sf_history = Some s /\ Forall (ev_in 2) ex_sf_history /\ quiescent s.
Proof. exact ex_history_is_maximal. Qed.

(* calls on different keys do not affect each other's map entry; the owner's return ends the flight (second half of
   C20_owner_is_the_creator), so a later call on the key starts a new one *)
Theorem C20_keys_independent : forall s e s' k', sf_step s e = Some s' ->
  (match e with EStep c => pc_key (sf_callers s c) <> Some k' | _ => True end) -> sf_map s' k' = sf_map s k'.
Proof. exact keys_independent. Qed.

(* the statements the atomic actions were read from are still in the source (regenerated on every run) *)
Example C20_source_shape_pinned : singleflight_shape_pinned = true.
Proof. reflexivity. Qed.

(* non-vacuity: two callers on one key, the task fails: both get the error, the owner is caller 0, the key is free again *)
Example C20_nonvacuous :
  exists s, sf_run sf_init ex_sf_history = Some s /\ sf_callers s 0 = CReturned 0 (RWaiterErr 3) true /\
            sf_callers s 1 = CReturned 0 (RWaiterErr 3) false /\ sf_map s 7 = None.
Proof. exact ex_sf_history_runs. Qed.

Print Assumptions C20_invariant_every_schedule.
Print Assumptions C20_same_outcome.
Print Assumptions C20_task_starts_once.
Print Assumptions C20_progress.
Print Assumptions C20_every_event_decreases_the_measure.
Print Assumptions C20_schedules_are_bounded.
Print Assumptions C20_maximal_schedule_serves_everyone.
