(* C18 -- Keyed shards protect chunk hashes, keep dedup working, and expire.  Statements only. *)
From Coq Require Import NArith Bool List.
Import ListNotations.
From XetModel Require Import Base.Codec Gen.ShardLayout Gen.ShardFacts Model.Blake3 Model.Merkle Model.Shard
  Proofs.CodecProofs Proofs.ShardProofs Proofs.DedupProofs Proofs.KeyedProofs.
From XetModel Require Import Gen.ManagerFacts Model.Manager Proofs.ManagerProofs Proofs.ShardWholeProofs Proofs.ExpiryProofs.
Open Scope N_scope.

(* keying a block: headers, lengths, offsets unchanged; every chunk hash replaced by keyed key h, which is h
   for the zero key and HMAC(h) otherwise *)
Theorem C18_keyed_block_shape : forall key c,
  ci_hash (keyed_cas key c) = ci_hash c /\ ci_flags (keyed_cas key c) = ci_flags c /\
  ci_nbytes (keyed_cas key c) = ci_nbytes c /\ ci_ndisk (keyed_cas key c) = ci_ndisk c /\
  length (ci_chunks (keyed_cas key c)) = length (ci_chunks c) /\
  forall i ch, nth_error (ci_chunks c) i = Some ch ->
    nth_error (ci_chunks (keyed_cas key c)) i = Some (mkCE (keyed key (ce_hash ch)) (ce_bytes ch) (ce_start ch) (ce_unused ch)).
Proof. exact keyed_cas_shape. Qed.
Theorem C18_zero_key_is_unkeyed : forall h, keyed zero_hash h = h.
Proof. exact keyed_zero. Qed.
Theorem C18_nonzero_key_is_hmac : forall key h, bytes_eqb key zero_hash = false -> keyed key h = hmac h key.
Proof. exact keyed_nonzero. Qed.

(* the exported CAS section scans back to exactly the keyed blocks (so C05/C09 apply to exported shards) *)
Theorem C18_export_cas_section_scan : forall key cs rest fuel, Forall wf_cas cs -> (length cs < fuel)%nat ->
  parse_all parse_cas_info fuel (flat_map ser_cas_info (map (keyed_cas key) cs) ++ cas_bookend ++ rest) = Some (map (keyed_cas key) cs, rest).
Proof. exact export_cas_section_scan. Qed.

Theorem C18_no_raw_hash_leak : forall key c e, bytes_eqb key zero_hash = false -> In e (ci_chunks (keyed_cas key c)) ->
  exists e0, In e0 (ci_chunks c) /\ ce_hash e = hmac (ce_hash e0) key /\
    forall e1, In e1 (ci_chunks c) -> ce_hash e = ce_hash e1 -> hmac (ce_hash e0) key = ce_hash e1.
Proof. exact no_raw_hash_leak. Qed.

(* a dedup query with unkeyed hashes against the keyed block answers exactly as against the original block,
   or two different hashes with equal HMAC are exhibited *)
Theorem C18_keyed_query_equiv : forall key c qs off, bytes_eqb key zero_hash = false ->
  direct_rec key (keyed_cas key c) qs off = direct_rec zero_hash c qs off \/ hmac_collision key.
Proof. exact keyed_query_equiv. Qed.

(* expiry: rules regenerated from MDBShardFile::load_all and clean_expired_shards *)
Theorem C18_expiry_rules : forall now expiry grace, expiry <= 18446744073709551615 ->
  (shard_loaded now expiry = true <-> now <= expiry) /\
  (shard_deleted now expiry grace = true <-> N.min (expiry + grace) 18446744073709551615 <= now) /\
  (shard_deleted now expiry grace = true -> expiry <= now) /\
  (expiry < now -> shard_loaded now expiry = false).
Proof. exact expiry_rules. Qed.

(* the export drops a file's entries together with its header (fact regenerated from the source; the
   other shape re-parses entries as headers and fails on segments with high cas_flags bits) *)
Example C18_export_skips_dropped_entries : export_skips_dropped_entries = true.
Proof. reflexivity. Qed.

(* non-vacuity: a non-zero key really changes the chunk hashes, and the model's export of a small shard loads *)
Example C18_nonvacuous :
  bytes_eqb (repeat 1 32%nat) zero_hash = false /\
  keyed (repeat 1 32%nat) (repeat 2 32%nat) <> repeat 2 32%nat.
Proof. split; [reflexivity|]. vm_compute. discriminate. Qed.


(* the shard manager keeps one collection per key and asks each under its own key: whatever the routed query reports is a real
   run of a block of a registered shard, the query hashes matching the stored ones under that collection's key ... *)
Theorem C18_manager_answers_under_the_collection_key : forall cap ops qs, N.of_nat (length ops) <= 65536 -> qs <> [] ->
  let b := fold_left (register cap) ops book0 in
  exists r, mgr_query b qs = Found r /\
    forall n sg, r = Some (n, sg) -> exists c s blk, In c (b_colls b) /\ In s (k_shards c) /\ In blk (sh_cass s) /\ truthful (k_key c) blk qs n sg.
Proof. exact mgr_query_truthful. Qed.
(* ... and a chunk stored under any key is found (below the cap), also when collections asked earlier hold an entry with the
   same first 64 bits that turns out not to match *)
Theorem C18_keyed_collection_chunk_found : forall cap ops, N.of_nat (length ops) <= 65536 ->
  let b := fold_left (register cap) ops book0 in b_total b < cap ->
  forall c s blk j ch q0 qr, In c (b_colls b) -> In s (k_shards c) -> In blk (sh_cass s) -> nth_error (ci_chunks blk) j = Some ch -> N.of_nat j <= 65535 ->
    ce_hash ch = keyed (k_key c) q0 -> NoTruncClash c ->
    exists n sg, mgr_query b (q0 :: qr) = Found (Some (n, sg)).
Proof. exact registered_chunk_found. Qed.


(* export_with_expiration (the bytes up to the footer offset, then the footer with a new expiry) of a serialized shard, keyed
   or not, is byte for byte the shard obtained by serializing the same records, tables and key with that expiry: only the
   expiry field changes, so the re-exported file loads back, lists the same records and answers every lookup as before *)
Theorem C18_export_with_expiration_changes_only_the_expiry : forall files cass ctbl key created expiry e,
  export_with_expiration (w_bs files cass ctbl key created expiry) (w_ft files cass ctbl key created expiry) e = w_bs files cass ctbl key created e.
Proof. exact export_with_expiration_is_reserialization. Qed.
Theorem C18_export_with_expiration_loads : forall files cass ctbl key created expiry e, ShardOk files cass ctbl key created e ->
  let bs' := export_with_expiration (w_bs files cass ctbl key created expiry) (w_ft files cass ctbl key created expiry) e in
  load_footer bs' = Some (w_ft files cass ctbl key created e)
  /\ read_all_files bs' (w_ft files cass ctbl key created e) = Some files /\ read_all_cas bs' (w_ft files cass ctbl key created e) = Some cass.
Proof. exact export_with_expiration_loads. Qed.

Print Assumptions C18_keyed_query_equiv.
Print Assumptions C18_no_raw_hash_leak.
Print Assumptions C18_export_cas_section_scan.
Print Assumptions C18_expiry_rules.
Print Assumptions C18_manager_answers_under_the_collection_key.
Print Assumptions C18_keyed_collection_chunk_found.
Print Assumptions C18_export_with_expiration_changes_only_the_expiry.
Print Assumptions C18_export_with_expiration_loads.
