(* C14 -- Reported sizes and dedup metrics are conserved.  Statements only.
   The data interface is an arbitrary oracle ([answers]); fragmentation decisions are whatever DefragPrevention computes.
   [dedup_booked_before_decision], [metrics_snapshot_after_join] are regenerated from the source on every run. *)
From Coq Require Import NArith Bool List.
Import ListNotations.
From XetModel Require Import Base.Codec Gen.ShardLayout Gen.DedupFacts Model.Merkle Model.Shard Model.Dedup Proofs.PipelineProofs Proofs.DefragProofs Proofs.ResolveProofs Proofs.BytesProofs Proofs.SessionMetricsProofs.
Open Scope N_scope.

(* new + deduplicated = total (bytes and chunks) after every process_chunks call, for every oracle *)
Theorem C14_conservation : forall cf f chunks answers, mcons (f_metrics f) ->
  mcons (f_metrics (process_chunks dedup_booked_before_decision cf f chunks answers)).
Proof. exact process_chunks_conservation. Qed.

(* the chunk total grows by exactly the number of chunks fed, for every oracle whose answers cover between 1 and the
   remaining number of chunks *)
Theorem C14_total_chunks_exact : forall cf f chunks answers, answers_fit chunks answers ->
  m_total_chunks (f_metrics (process_chunks dedup_booked_before_decision cf f chunks answers)) = m_total_chunks (f_metrics f) + N.of_nat (length chunks).
Proof. exact process_chunks_total_chunks. Qed.
(* the byte half: a file's total-bytes metric -- the size file_cleaner writes into the pointer file -- is the number of bytes
   fed, however the chunks are grouped into process_chunks calls and whatever is deduplicated locally, against the session's
   own xorbs or against the global table.  A dedup answer books the byte count of its segment; for the local query that is
   the summed length of the pending chunks it names, which the resolution invariant (C01) shows to be the incoming chunks.
   Assumed: StoreOk (collision freedom), the table answers with xorbs of the store, and no xorb reaches 4 GiB (the segment
   byte count is a u32). *)
Theorem C14_total_bytes_exact : forall F U, StoreOk F U -> forall cf ext R blocks,
  TableOk F ext -> TableSmall ext -> (forall x, In x F -> sum_lens (chunks_of x) < 4294967296) ->
  (forall b c, In b blocks -> In c b -> In c U) ->
  (forall x, In x (f_registered (feed_blocks dedup_booked_before_decision cf ext (fd_with_registered R) blocks)) -> In x F) ->
  m_total_bytes (f_metrics (feed_blocks dedup_booked_before_decision cf ext (fd_with_registered R) blocks)) = sum_lens (concat blocks).
Proof. exact file_total_bytes. Qed.
Example C14_total_bytes_nonvacuous : m_total_bytes (f_metrics ex_file) = sum_lens (concat ex_blocks) /\ sum_lens (concat ex_blocks) = 40
  /\ m_deduped_bytes (f_metrics ex_file) = 10.
Proof. exact ex_total_bytes. Qed.

(* the shape the source had before the repair (counters booked before the accept/reject decision) violates it *)
Theorem C14_booked_before_decision_refuted :
  let r := step true ex_cfg ex_fd (ex_h 1, 10) [ex_h 1] (Some (1, ex_seg)) in
  snd r = 1 /\ m_total_chunks (f_metrics (fst r)) = 2 /\ m_total_bytes (f_metrics (fst r)) = 20.
Proof. exact booked_before_decision_refuted. Qed.

(* the bytes and chunks counted as withheld from dedup by fragmentation prevention are a subset of the new bytes and chunks,
   after every process_chunks call and for every oracle: a rejected answer adds exactly the chunk it causes to be stored
   ([defrag_counts_whole_run] is regenerated from process_chunks on every run) *)
Theorem C14_withheld_subset_of_new : forall bbd cf ext blocks f, DInv (f_metrics f) ->
  DInv (f_metrics (fold_left (process_block bbd cf ext) blocks f)).
Proof. intros bbd cf ext. exact (feed_blocks_defrag_subset bbd cf ext eq_refl). Qed.
(* the shape the source had before the repair (the whole rejected run counted) violates it: the witness the thorough tier found *)
Theorem C14_withheld_whole_run_refuted :
  let r := step_with true false ex_cfg ex_fd (ex_h 1, 10) [ex_h 1; ex_h 2] (Some (2, ex_seg2)) in
  snd r = 1 /\ m_new_bytes (f_metrics (fst r)) = 10 /\ m_defrag_bytes (f_metrics (fst r)) = 30 /\ ~ DInv (f_metrics (fst r)).
Proof. exact defrag_whole_run_refuted. Qed.

(* session metrics are the sums over its files *)
Theorem C14_session_sums : forall rc cf s file m, s_metrics (register_completion rc cf s file m) = m_add (s_metrics s) m.
Proof. exact register_completion_metrics. Qed.

(* ... over a whole session, whatever the order of completions and mid-file registrations; and new + deduplicated = total
   carries over from the files to the session *)
Theorem C14_session_metrics_are_sums : forall rc cf ops, s_metrics (srun rc cf ops) = sum_metrics ops.
Proof. exact session_metrics_are_sums. Qed.
Theorem C14_session_conservation : forall rc cf ops, Forall (fun o => mcons (op_metrics o)) ops -> mcons (s_metrics (srun rc cf ops)).
Proof. exact session_conservation. Qed.

(* the upload-byte counters are read after every upload task has been joined (fact regenerated from finalize_impl) *)
Example C14_metrics_snapshot_after_join : metrics_snapshot_after_join = true.
Proof. reflexivity. Qed.

Example C14_nonvacuous : mcons (f_metrics fd0) /\ answers_fit [(ex_h 1, 10); (ex_h 2, 20)] [Some (2, ex_seg); None].
Proof. exact nonvacuous_C14. Qed.

Print Assumptions C14_conservation.
Print Assumptions C14_total_chunks_exact.
Print Assumptions C14_session_sums.
Print Assumptions C14_total_bytes_exact.
Print Assumptions C14_withheld_subset_of_new.
Print Assumptions C14_session_metrics_are_sums.
Print Assumptions C14_session_conservation.
