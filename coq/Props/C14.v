(* C14 -- Reported sizes and dedup metrics are conserved.  Statements only.
   The data interface is an arbitrary oracle ([answers]); fragmentation decisions are whatever DefragPrevention computes.
   [dedup_booked_before_decision], [metrics_snapshot_after_join] are regenerated from the source on every run. *)
From Coq Require Import NArith Bool List.
Import ListNotations.
From XetModel Require Import Base.Codec Gen.ShardLayout Gen.DedupFacts Model.Merkle Model.Shard Model.Dedup Proofs.PipelineProofs.
Open Scope N_scope.

(* new + deduplicated = total (bytes and chunks) after every process_chunks call, for every oracle *)
Theorem C14_conservation : forall cf f chunks answers, mcons (f_metrics f) ->
  mcons (f_metrics (process_chunks dedup_booked_before_decision cf f chunks answers)).
Proof. exact process_chunks_conservation. Qed.

(* the chunk total grows by exactly the number of chunks fed, for every oracle whose answers cover between 1 and the
   remaining number of chunks *)
Theorem C14_total_chunks_exact : forall cf f chunks answers, answers_fit chunks answers ->
  m_total_chunks (f_metrics (process_chunks dedup_booked_before_decision cf f chunks answers)) = m_total_chunks (f_metrics f) + N.of_nat (length chunks).
Proof. exact process_chunks_total_chunks. Qed.
(* the byte half (total_bytes = bytes fed) additionally needs byte-exact answers; it is covered by the correspondence and the
   direct oracle on every generated file (streams dd and sess), its Coq proof is not part of this revision *)

(* the shape the source had before the repair (counters booked before the accept/reject decision) violates it *)
Theorem C14_booked_before_decision_refuted :
  let r := step true ex_cfg ex_fd (ex_h 1, 10) [ex_h 1] (Some (1, ex_seg)) in
  snd r = 1 /\ m_total_chunks (f_metrics (fst r)) = 2 /\ m_total_bytes (f_metrics (fst r)) = 20.
Proof. exact booked_before_decision_refuted. Qed.

(* session metrics are the sums over its files *)
Theorem C14_session_sums : forall rc cf s file m, s_metrics (register_completion rc cf s file m) = m_add (s_metrics s) m.
Proof. exact register_completion_metrics. Qed.

(* the upload-byte counters are read after every upload task has been joined (fact regenerated from finalize_impl) *)
Example C14_metrics_snapshot_after_join : metrics_snapshot_after_join = true.
Proof. reflexivity. Qed.

Example C14_nonvacuous : mcons (f_metrics fd0) /\ answers_fit [(ex_h 1, 10); (ex_h 2, 20)] [Some (2, ex_seg); None].
Proof. exact nonvacuous_C14. Qed.

Print Assumptions C14_conservation.
Print Assumptions C14_total_chunks_exact.
Print Assumptions C14_session_sums.
