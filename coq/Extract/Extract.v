(* Extraction of the executable models.  ExtrOcamlBasic only: its Extract Inductive directives
   for bool, option, unit, prod, list, sumbool, sumor; N, Z, positive, nat stay extracted datatypes.
   No Extract Constant. *)
From Coq Require Extraction ExtrOcamlBasic.
From XetModel Require Import Gen.HashConsts Gen.ShardFacts Gen.XorbLayout Gen.DedupFacts Model.Chunker Model.Blake3 Model.Merkle Model.Shard Model.Manager Model.Xorb Model.Dedup Model.Cache Model.Crash Model.Singleflight Model.Reconstruct Model.Upload Gen.CacheFacts.
Extraction Language OCaml.
Extraction "model.ml"
  Chunker.chunker_new Chunker.run_calls Chunker.spec_chunks Chunker.st0
  Blake3.keyed_hash
  Merkle.compute_data_hash Merkle.compute_internal_node_hash Merkle.hmac Merkle.range_hash_from_chunks
  Merkle.cas_node_hash Merkle.validator_root Merkle.file_node_hash Merkle.hex Merkle.base64 Merkle.from_hex Merkle.from_base64
  Merkle.hashed_write HashConsts.hashed_write_hashes_whole_buffer
  Shard.ms_empty Shard.add_cas_block Shard.add_file_info Shard.serialize_from Shard.load_footer Shard.read_all_files Shard.read_all_cas
  Shard.get_file_info Shard.probe_exact Shard.search Shard.read_tbl12 Shard.read_tbl16 Shard.parse_cas_info Shard.parse_file_info
  Shard.shard_file_size Shard.mem_union Shard.mem_difference Shard.mem_dedup_query Shard.dedup_query Shard.dedup_direct Shard.export_keyed
  Shard.truncate_hash Shard.recalc_size Shard.keyed Shard.disk_union Shard.disk_difference Shard.direct_rec Shard.export_with_expiration Shard.stream_walk Shard.minimal_from_reader
  Manager.book0 Manager.register Manager.mgr_query Manager.keyed_cass Manager.mkRS Manager.b_total Manager.mgr0 Manager.mgr_step Manager.mgr_dedup Manager.mgr_run Manager.batch_order
  ShardFacts.size_replace_aware ShardFacts.size_per_occurrence
  Xorb.bg4_split Xorb.bg4_regroup Xorb.xorb_serialize Xorb.xorb_deserialize Xorb.get_all_bytes Xorb.get_bytes_by_chunk_range
  Xorb.uncompressed_range_length Xorb.validate_cas_object Xorb.validate_stream Xorb.parse_boundaries_only Xorb.deserialize_chunks
  Xorb.deserialize_chunk_async XorbLayout.boundaries_only_checked
  Dedup.fd0 Dedup.process_block Dedup.fd_finalize Dedup.agg_merge Dedup.agg_finalize Dedup.agg0 Dedup.session0 Dedup.register_completion
  Dedup.register_mid_xorbs Dedup.session_finalize Dedup.m0 Dedup.resolve_file Dedup.raw_xorb
  Cache.initialize Cache.start_op Cache.run_thread Cache.run_op Cache.mstep Cache.infer_victims Cache.new_item Cache.item_path Cache.fs_unlink
  Cache.crc32 Cache.encode_file Cache.at_hook Cache.op_key Cache.key_dir Cache.item_name Cache.evict_ok
  Singleflight.sf_step Singleflight.sf_init Singleflight.sf_run
  Reconstruct.trim_term Reconstruct.get_one_term Reconstruct.seq_write Reconstruct.par_write
  Upload.urun Upload.u_init Upload.finalize_join Upload.session_result
  Crash.consolidate Crash.plan_effs Crash.apply_effs Crash.shard_name Crash.is_shard_final Crash.write_file
  DedupFacts.dedup_booked_before_decision DedupFacts.aggregated_xorb_registers_cas DedupFacts.metrics_snapshot_after_join
  DedupFacts.sha_of_empty_input_is_zero DedupFacts.MIN_N_CHUNKS_PER_RANGE_NUM DedupFacts.MIN_N_CHUNKS_PER_RANGE_DEN
  DedupFacts.MIN_N_CHUNKS_PER_RANGE_HYSTERESIS_FACTOR_NUM DedupFacts.MIN_N_CHUNKS_PER_RANGE_HYSTERESIS_FACTOR_DEN.
