(* Extraction of the executable models.  ExtrOcamlBasic only: its Extract Inductive directives
   for bool, option, unit, prod, list, sumbool, sumor; N, Z, positive, nat stay extracted datatypes.
   No Extract Constant. *)
From Coq Require Extraction ExtrOcamlBasic.
From XetModel Require Import Model.Chunker.
Extraction Language OCaml.
Extraction "model.ml" Chunker.chunker_new Chunker.run_calls Chunker.spec_chunks Chunker.st0.
