(* Extraction of the executable models.  ExtrOcamlBasic only: its Extract Inductive directives
   for bool, option, unit, prod, list, sumbool, sumor; N, Z, positive, nat stay extracted datatypes.
   No Extract Constant. *)
From Coq Require Extraction ExtrOcamlBasic.
From XetModel Require Import Gen.HashConsts Model.Chunker Model.Blake3 Model.Merkle.
Extraction Language OCaml.
Extraction "model.ml"
  Chunker.chunker_new Chunker.run_calls Chunker.spec_chunks Chunker.st0
  Blake3.keyed_hash
  Merkle.compute_data_hash Merkle.compute_internal_node_hash Merkle.hmac Merkle.range_hash_from_chunks
  Merkle.cas_node_hash Merkle.validator_root Merkle.file_node_hash Merkle.hex Merkle.base64 Merkle.from_hex Merkle.from_base64
  Merkle.hashed_write HashConsts.hashed_write_hashes_whole_buffer.
