
val negb : bool -> bool

type nat =
| O
| S of nat

val fst : ('a1 * 'a2) -> 'a1

val snd : ('a1 * 'a2) -> 'a2

val length : 'a1 list -> nat

val app : 'a1 list -> 'a1 list -> 'a1 list

type comparison =
| Eq
| Lt
| Gt

type uint =
| Nil
| D0 of uint
| D1 of uint
| D2 of uint
| D3 of uint
| D4 of uint
| D5 of uint
| D6 of uint
| D7 of uint
| D8 of uint
| D9 of uint

val revapp : uint -> uint -> uint

val rev : uint -> uint

module Little :
 sig
  val double : uint -> uint

  val succ_double : uint -> uint
 end

val add : nat -> nat -> nat

val mul : nat -> nat -> nat

val leb : nat -> nat -> bool

val ltb : nat -> nat -> bool

val divmod : nat -> nat -> nat -> nat -> nat * nat

val div : nat -> nat -> nat

type positive =
| XI of positive
| XO of positive
| XH

type n =
| N0
| Npos of positive

module Pos :
 sig
  type mask =
  | IsNul
  | IsPos of positive
  | IsNeg
 end

module Coq_Pos :
 sig
  val succ : positive -> positive

  val add : positive -> positive -> positive

  val add_carry : positive -> positive -> positive

  val pred_double : positive -> positive

  type mask = Pos.mask =
  | IsNul
  | IsPos of positive
  | IsNeg

  val succ_double_mask : mask -> mask

  val double_mask : mask -> mask

  val double_pred_mask : positive -> mask

  val sub_mask : positive -> positive -> mask

  val sub_mask_carry : positive -> positive -> mask

  val mul : positive -> positive -> positive

  val iter : ('a1 -> 'a1) -> 'a1 -> positive -> 'a1

  val size : positive -> positive

  val compare_cont : comparison -> positive -> positive -> comparison

  val compare : positive -> positive -> comparison

  val eqb : positive -> positive -> bool

  val coq_Nsucc_double : n -> n

  val coq_Ndouble : n -> n

  val coq_lor : positive -> positive -> positive

  val coq_land : positive -> positive -> n

  val coq_lxor : positive -> positive -> n

  val shiftl : positive -> n -> positive

  val iter_op : ('a1 -> 'a1 -> 'a1) -> positive -> 'a1 -> 'a1

  val to_nat : positive -> nat

  val of_succ_nat : nat -> positive

  val to_little_uint : positive -> uint

  val to_uint : positive -> uint
 end

module N :
 sig
  val succ_double : n -> n

  val double : n -> n

  val add : n -> n -> n

  val sub : n -> n -> n

  val mul : n -> n -> n

  val compare : n -> n -> comparison

  val eqb : n -> n -> bool

  val leb : n -> n -> bool

  val ltb : n -> n -> bool

  val min : n -> n -> n

  val div2 : n -> n

  val log2 : n -> n

  val size : n -> n

  val pos_div_eucl : positive -> n -> n * n

  val div_eucl : n -> n -> n * n

  val div : n -> n -> n

  val modulo : n -> n -> n

  val coq_lor : n -> n -> n

  val coq_land : n -> n -> n

  val coq_lxor : n -> n -> n

  val shiftl : n -> n -> n

  val shiftr : n -> n -> n

  val to_nat : n -> nat

  val of_nat : nat -> n

  val to_uint : n -> uint
 end

val nth : nat -> 'a1 list -> 'a1 -> 'a1

val rev0 : 'a1 list -> 'a1 list

val rev_append : 'a1 list -> 'a1 list -> 'a1 list

val concat : 'a1 list list -> 'a1 list

val map : ('a1 -> 'a2) -> 'a1 list -> 'a2 list

val flat_map : ('a1 -> 'a2 list) -> 'a1 list -> 'a2 list

val fold_right : ('a2 -> 'a1 -> 'a1) -> 'a1 -> 'a2 list -> 'a1

val firstn : nat -> 'a1 list -> 'a1 list

val skipn : nat -> 'a1 list -> 'a1 list

val seq : nat -> nat -> nat list

val repeat : 'a1 -> nat -> 'a1 list

val dATA_KEY : n list

val iNTERNAL_NODE_HASH : n list

val vERIFICATION_KEY : n list

val mEAN_TREE_BRANCHING_FACTOR : n

val merkle_cut : n -> n -> n -> n -> bool

val hashed_write_hashes_whole_buffer : bool

val gear : n -> n

val mINIMUM_CHUNK_DIVISOR : n

val mAXIMUM_CHUNK_MULTIPLIER : n

val hASH_WINDOW_SIZE : n

val chunker_minimum : n -> n

val chunker_maximum : n -> n

val chunker_mask : n -> n

val chunker_new_asserts : n -> n -> n -> bool

val next_skip_cond : n -> n -> bool

val next_skip_amount : n -> n -> n

val next_skip_avail : n -> n -> n

val next_read_end : n -> n -> n -> n -> n

val next_force_cond : n -> n -> n -> bool

val next_force_amount : n -> n -> n

val u64_mask : n

val u64 : n -> n

val gear_step : n -> n -> n

type cfg = { c_min : n; c_max : n; c_mask : n }

val is_pow2 : n -> bool

val chunker_new : n -> cfg option

type st = { s_hash : n; s_cur : n; s_buf : n list }

val st0 : st

val next_match : n -> n -> n list -> n option * n

val slice : n list -> n -> n -> n list

val next : cfg -> st -> n list -> bool -> (n list option * n) * st

val next_block_loop :
  nat -> cfg -> st -> n list -> bool -> n list list -> (n list list * st)
  option

val next_block : cfg -> st -> n list -> bool -> (n list list * st) option

val finish : cfg -> st -> n list option

val run_calls : cfg -> st -> (n list * bool) list -> n list list option

val scan : cfg -> n -> n -> n list -> n option

val first_cut : cfg -> n list -> n option

val cut_all : nat -> cfg -> n list -> n list list

val spec_chunks : cfg -> n list -> n list list

val m32 : n

val add32 : n -> n -> n

val rotr32 : n -> n -> n

val iV : n list

val mSG_PERMUTATION : nat list

val cHUNK_START : n

val cHUNK_END : n

val pARENT : n

val rOOT : n

val kEYED_HASH : n

val get : n list -> nat -> n

val upd : n list -> nat -> n -> n list

val g : n list -> nat -> nat -> nat -> nat -> n -> n -> n list

val round : n list -> n list -> n list

val permute : n list -> n list

val rounds : nat -> n list -> n list -> n list

val compress : n list -> n list -> n -> n -> n -> n list

val compress_cv : n list -> n list -> n -> n -> n -> n list

val words_of_bytes : nat -> n list -> n list

val pad16 : n list -> n list

val block_words : n list -> n list

val bytes_of_word : n -> n list

val bytes_of_words : n list -> n list

val chunks_of : nat -> nat -> n list -> n list list

val chunk_blocks :
  n list -> n list -> n list list -> n -> n -> ((n list * n list) * n) * n

val chunk_output : n list -> n list -> n -> (((n list * n list) * n) * n) * n

val out_cv : ((((n list * n list) * n) * n) * n) -> n list

val out_root : ((((n list * n list) * n) * n) * n) -> n list

val parent_output :
  n list -> n list -> n list -> (((n list * n list) * n) * n) * n

val pow2_below : nat -> nat -> nat -> nat

val subtree :
  nat -> n list -> n list list -> n -> (((n list * n list) * n) * n) * n

val key_words : n list -> n list

val keyed_hash : n list -> n list -> n list

type hash = n list

val zero_hash : hash

val compute_data_hash : n list -> hash

val compute_internal_node_hash : n list -> hash

val hmac : hash -> hash -> hash

val with_salt : hash -> hash -> hash

val range_hash_from_chunks : hash list -> hash

val hexdigit : n -> n

val hex_byte : n -> n list

val hex_words : nat -> n list -> n list

val hex : hash -> n list

val unhexdigit : n -> n option

val unhex_bytes : n list -> n list option

val unhex_words : nat -> n list -> n list

val from_hex : n list -> hash option

val b64char : n -> n

val b64enc : nat -> n list -> n list

val base64 : hash -> n list

val b64val : n -> n option

val b64dec : nat -> n list -> n list option

val from_base64 : n list -> hash option

val uint_digits : uint -> n list

val dec : n -> n list

type node = hash * n

val child_text : node -> n list

val children_text : node list -> n list

val le64 : n list -> n

val word3 : hash -> n

val hkey : hash -> n

type db = (n * n) list

val db0 : db

val db_find : db -> n -> n option

val add_node : db -> hash -> n -> db * node

val mol :
  (n list -> hash) -> db -> node list -> n -> n -> n -> node list -> node
  list -> db * node list

val merge_one_level : (n list -> hash) -> db -> node list -> db * node list

val merge_loop :
  (n list -> hash) -> nat -> db -> node list -> (db * node) option

val merge : (n list -> hash) -> db -> node list -> (db * node) option

val add_nodes : db -> node list -> db * node list

val cas_node_hash : (n list -> hash) -> node list -> hash option

val validator_root : (n list -> hash) -> node list -> hash option

val file_node_hash : node list -> hash -> hash option

val hashed_write :
  bool -> (n list * n option) list -> n list -> n list -> n list * n list
